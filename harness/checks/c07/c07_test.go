// C07 — Elligator 2 key generation and decoding are consistent and
// uniform-looking.
//
// Monitor: obfuscated key generation is driven through the tag-guarded hook
// ntor.VerifScalarBaseMult (chosen private keys and tweaks) and through the
// public ntor.NewKeypair(true) (with a seeded crypto/rand.Reader); decoding
// through the public Representative.ToPublic.  The oracle is verif/ref/ell2
// (math/big, written from the mathematics) plus X25519 from x/crypto:
//
//	ok   => ToPublic(repr) == pub == ref_map(repr mod 2^254)
//	        pub is the u-coordinate of clamp(priv)*B + T for exactly one of the
//	        8 torsion points T (this T is the key's coset), and L*pub-point is
//	        the matching torsion class
//	        repr[31]&0xc0 == tweak&0xc0
//	        X25519(s, pub) == X25519(priv, X25519(s, 9)) == X25519(s, clean pub)
//	!ok  => not all eight candidates clamp(priv)*B + T have a representative,
//	        no other tweak succeeds for the same private key, and the candidate
//	        the observed low-bits -> torsion-point rule predicts has none
//	any 32-byte s: ToPublic(s) == ref_map(s mod 2^254), for all four settings
//	        of the two top bits, without panicking
//	every batch of >= 512 generated keys meets all eight cosets
package c07

import (
	"bytes"
	"encoding/hex"
	"fmt"
	"math/big"
	"math/rand/v2"
	"runtime/debug"
	"sync"
	"sync/atomic"
	"testing"

	"gitlab.com/yawning/obfs4.git/common/ntor"
	"golang.org/x/crypto/curve25519"

	"verif/mon"
	"verif/ref/ell2"
	"verif/steer"
)

const coverageMin = 512 // keys per batch before "all eight cosets" is judged: 8*(7/8)^512 ~ 1e-29

func hx(b []byte) string { return hex.EncodeToString(b) }

// ---- reference view of one private key -----------------------------------

type privRef struct {
	priv   [32]byte
	candU  [8]*big.Int
	cand   [8][32]byte
	hasRep [8]int8 // 0 unknown, 1 yes, -1 no
	clean  [32]byte
}

func newPrivRef(priv [32]byte) *privRef {
	p := &privRef{priv: priv}
	p.candU = ell2.Candidates(priv[:])
	for k := range p.candU {
		p.cand[k] = ell2.Bytes(p.candU[k])
	}
	p.clean = p.cand[0]
	return p
}

func (p *privRef) rep(k int) bool {
	if p.hasRep[k] == 0 {
		p.hasRep[k] = -1
		if ell2.HasRepresentative(p.candU[k]) {
			p.hasRep[k] = 1
		}
	}
	return p.hasRep[k] == 1
}

func (p *privRef) find(pub [32]byte) int {
	for k := range p.cand {
		if p.cand[k] == pub {
			return k
		}
	}
	return -1
}

// ---- per-batch state --------------------------------------------------------

type failRec struct {
	pr    *privRef
	tweak byte
}

type batch struct {
	c        *mon.Case
	r        *mon.Run
	src      string     // "hook" or "newkeypair"
	rng      *rand.Rand // oracle-side draws only
	hist     [8]int
	okPrivs  int
	sel      [8][8]int // low 3 key bits -> coset index -> count
	fails    []failRec
	decCache map[[32]byte][32]byte
	nKeys    int
	sample   bool // this batch contributes written-out samples to the evidence
	sampled  map[string]bool
}

// newBatch forks a generator for the oracle's own draws (peer scalars, damaged
// representatives) off the workload generator, so that the sequence of
// generated private keys does not depend on how the code under test answers.
func newBatch(c *mon.Case, r *mon.Run, src string, rng *rand.Rand) *batch {
	return &batch{c: c, r: r, src: src, rng: mon.NewRand(rng.Uint64()), decCache: map[[32]byte][32]byte{}, sampled: map[string]bool{}}
}

var structuredPeers = func() [][]byte {
	l := [][]byte{make([]byte, 32), bytes.Repeat([]byte{0xff}, 32), bytes.Repeat([]byte{0x55}, 32)}
	for _, bit := range []int{0, 3, 7, 128, 253, 254, 255} {
		s := make([]byte, 32)
		s[bit/8] = 1 << (bit % 8)
		l = append(l, s)
	}
	return l
}()

func x25519(scalar, point []byte) ([]byte, bool) {
	out, err := curve25519.X25519(scalar, point)
	if err != nil { // x/crypto reports the all-zero output (low-order input) as an error
		return nil, false
	}
	return out, true
}

// refDecode is ell2.Decode with a per-batch cache on the 254 significant bits.
func (b *batch) refDecode(s [32]byte) [32]byte {
	s[31] &= 0x3f
	if v, ok := b.decCache[s]; ok {
		return v
	}
	v := ell2.Decode(s[:])
	if len(b.decCache) < 1<<16 {
		b.decCache[s] = v
	}
	return v
}

// judgeKey checks one successfully generated (priv, pub, repr); tweak < 0
// when it is not observable (NewKeypair).  seenPub caches the coset of the
// public keys already judged for this private key (the expensive per-key
// oracles run once per distinct public key).
func (b *batch) judgeKey(pr *privRef, pub, repr [32]byte, tweak int, seenPub map[[32]byte]int) {
	c, r := b.c, b.r
	wit := func() map[string]any {
		w := map[string]any{"source": b.src, "priv": hx(pr.priv[:]), "pub": hx(pub[:]), "repr": hx(repr[:])}
		if tweak >= 0 {
			w["tweak"] = fmt.Sprintf("0x%02x", tweak)
		}
		return w
	}
	// (1) decoding the representative yields exactly that public key
	rp := ntor.Representative(repr)
	got := *rp.ToPublic().Bytes()
	if got != pub {
		c.Violationf("roundtrip/ToPublic(repr)!=pub/"+b.src, wit(), "ToPublic(repr) = %x, generated public key %x (priv %x tweak %d)", got, pub, pr.priv, tweak)
	}
	if ref := b.refDecode(repr); ref != pub {
		c.Violationf("roundtrip/ref-map(repr)!=pub/"+b.src, wit(), "reference Elligator 2 map of repr mod 2^254 = %x, generated public key %x (priv %x tweak %d)", ref, pub, pr.priv, tweak)
	}
	// (2) top bits copied from the tweak
	if tweak >= 0 {
		if d := (repr[31] ^ byte(tweak)) & 0xc0; d != 0 {
			c.Violationf(fmt.Sprintf("topbits/repr-top-bits!=tweak&0xc0/diff=%02x", d), wit(), "repr[31]&0xc0 = %02x, tweak&0xc0 = %02x", repr[31]&0xc0, byte(tweak)&0xc0)
		}
	}
	r.Count(fmt.Sprintf("%s_topbits_%d", b.src, repr[31]>>6), 1)
	low := repr
	low[31] &= 0x3f
	if ell2.FromBytes(low[:]).Cmp(halfP) <= 0 {
		r.Count("obs_repr_in_lower_half", 1)
	} else {
		r.Count("obs_repr_in_upper_half", 1)
	}
	// (3)-(5) per distinct public key of this private key
	if k, done := seenPub[pub]; done {
		if k >= 0 {
			r.Count(fmt.Sprintf("coset_calls_%d", k), 1)
		}
		return
	}
	k := pr.find(pub)
	seenPub[pub] = k
	u := ell2.FromBytes(pub[:])
	cls, onCurve := -1, false
	if u.Cmp(ell2.P) < 0 {
		cls, onCurve = ell2.TorsionClass(u)
		r.Count("lmult_classified", 1)
	}
	switch {
	case k < 0 && u.Cmp(ell2.P) >= 0:
		c.Violationf("pub-form/non-canonical-encoding/"+b.src, wit(), "public key %x is not a canonical field element", pub)
	case k < 0 && !onCurve:
		c.Violationf("pub-form/on-twist/"+b.src, wit(), "public key %x is not on the curve", pub)
	case k < 0:
		c.Violationf("pub-form/not-clean-plus-low-order/"+b.src, wit(), "public key %x is none of clamp(priv)*B + T (T in the 8-torsion); L*point has torsion class %d; clean key %x", pub, cls, pr.clean)
	default:
		b.hist[k]++
		b.sel[pr.priv[0]&7][k]++
		r.Count(fmt.Sprintf("coset_%d", k), 1)
		r.Count(fmt.Sprintf("coset_calls_%d", k), 1)
		if k != 0 {
			r.Count("control_dirty_key_differs_from_clean", 1)
		}
		if cls != ell2.FoldIndex(k) {
			r.Inconclusive(fmt.Sprintf("oracle self-check: L*point class %d but candidate index %d (pub %x)", cls, k, pub))
		}
		if !pr.rep(k) {
			c.Violationf("ok-without-representative/"+b.src, wit(), "generation succeeded but the reference finds no representative for %x", pub)
		}
	}
	// DH agreement with standard X25519
	peers := [][]byte{randBytes(b.rng), structuredPeers[b.nKeys%len(structuredPeers)]}
	for _, s := range peers {
		sp, _ := x25519(s, curve25519.Basepoint)
		want, _ := x25519(pr.priv[:], sp)
		wantClean, _ := x25519(s, pr.clean[:])
		gotS, ok := x25519(s, pub[:])
		r.Count("dh_checks", 1)
		w := wit()
		w["peer_scalar"] = hx(s)
		switch {
		case !ok:
			c.Violationf("dh/pub-is-low-order/"+b.src, w, "X25519(s, pub) is all-zero for pub %x", pub)
		case !bytes.Equal(gotS, want):
			c.Violationf("dh/X25519(s,pub)!=X25519(priv,X25519(s,9))/"+b.src, w, "peer computes %x, key owner computes %x", gotS, want)
		case !bytes.Equal(gotS, wantClean):
			c.Violationf("dh/differs-from-clean-public-key/"+b.src, w, "X25519(s, pub) = %x but X25519(s, clean pub) = %x", gotS, wantClean)
		}
	}
	// positive control: a damaged representative must not decode to pub
	if b.nKeys%16 == 0 {
		bad := repr
		bad[b.rng.IntN(31)] ^= 1 << b.rng.IntN(8)
		bp := ntor.Representative(bad)
		if *bp.ToPublic().Bytes() != pub {
			r.Count("control_damaged_repr_decodes_elsewhere", 1)
		}
	}
	b.nKeys++
	if b.sample && !b.sampled["key"] && k > 0 {
		b.sampled["key"] = true
		s := wit()
		s["kind"] = "generated key"
		s["coset"] = k
		s["clean_pub"] = hx(pr.clean[:])
		r.Sample(s)
	}
}

var halfP = new(big.Int).Rsh(ell2.P, 1)

// genPriv runs generation for one private key under each tweak.
func (b *batch) genPriv(priv [32]byte, tweaks []byte) {
	c, r := b.c, b.r
	pr := newPrivRef(priv)
	r.Distinct("nontrivial", "gen:"+string(priv[:]))
	seenPub := map[[32]byte]int{}
	nOK, nFail := 0, 0
	var okTweak, failTweak byte
	for ti, tw := range tweaks {
		var pub, repr [32]byte
		// the output arrays are outputs: what they hold before the call (zeros,
		// the previous key pair, anything) must not show in the result
		if fill := []byte{0x00, 0xff, 0xaa, 0x01, 0x80, 0x40}[(ti+int(priv[1]))%6]; fill != 0 {
			for i := range pub {
				pub[i], repr[i] = fill, ^fill
			}
			r.Count("gen_calls_into_dirty_output_arrays", 1)
		}
		p := priv
		ok := ntor.VerifScalarBaseMult(&pub, &repr, &p, tw)
		if p != priv {
			// the private key is an input: the result is a function of (key, tweak),
			// so generation may not alter the caller's key on the way
			c.Violationf("gen/private-key-modified-by-the-call", map[string]any{"priv": hx(priv[:]), "after": hx(p[:]), "tweak": tw}, "priv %x: generation with tweak %#02x left %x in the caller's private-key array", priv, tw, p)
		}
		if tw == tweaks[0] {
			// the same call again on the array the first call was given
			var pub2, repr2 [32]byte
			if ok2 := ntor.VerifScalarBaseMult(&pub2, &repr2, &p, tw); ok2 != ok || (ok && (pub2 != pub || repr2 != repr)) {
				c.Violationf("gen/not-repeatable-on-the-same-key-array", map[string]any{"priv": hx(priv[:]), "tweak": tw}, "priv %x tweak %#02x: a second call on the same key array gives ok=%v pub=%x repr=%x, the first gave ok=%v pub=%x repr=%x", priv, tw, ok2, pub2, repr2, ok, pub, repr)
			}
			r.Count("gen_repeated_on_same_array", 1)
		}
		r.Count("evaluations", 1)
		r.Count("gen_calls", 1)
		r.Distinct("tweaks", fmt.Sprintf("%02x", tw))
		if ok {
			nOK++
			okTweak = tw
			r.Count("gen_ok", 1)
			b.judgeKey(pr, pub, repr, int(tw), seenPub)
		} else {
			nFail++
			failTweak = tw
			r.Count("gen_fail", 1)
		}
	}
	wit := map[string]any{"priv": hx(priv[:]), "clean_pub": hx(pr.clean[:])}
	if nOK > 0 {
		b.okPrivs++
		r.Count("gen_ok_privs", 1)
	}
	if nFail > 0 {
		r.Count("gen_fail_privs", 1)
		if nOK > 0 {
			wit["tweak_ok"], wit["tweak_fail"] = okTweak, failTweak
			c.Violationf("fail/other-tweak-succeeds", wit, "priv %x: generation fails with tweak %#02x (\"no representative\") but succeeds with tweak %#02x", priv, failTweak, okTweak)
		}
		all := true
		for k := 0; k < 8; k++ {
			if !pr.rep(k) {
				all = false
			}
		}
		if all {
			c.Violationf("fail/all-eight-candidates-have-representatives", wit, "priv %x: generation reports no representative, but every clamp(priv)*B + T has one", priv)
		}
		b.fails = append(b.fails, failRec{pr, failTweak})
		if b.sample && b.src == "hook" && !b.sampled["fail"] {
			b.sampled["fail"] = true
			r.Sample(map[string]any{"kind": "generation failure", "priv": hx(priv[:]), "tweak": failTweak, "clean_pub": hx(pr.clean[:])})
		}
	}
}

// finish judges what needs the whole batch: failures against the low-bits ->
// torsion-point rule observed on the successes, and coset coverage.
func (b *batch) finish() {
	c, r := b.c, b.r
	var rule [8]int
	consistent := true
	for low := 0; low < 8; low++ {
		rule[low] = -1
		for k := 0; k < 8; k++ {
			if b.sel[low][k] > 0 {
				if rule[low] >= 0 {
					consistent = false
				}
				rule[low] = k
			}
		}
	}
	if b.src == "hook" {
		if !consistent {
			r.Count("obs_selection_rule_not_a_function_of_low_bits", 1)
		} else {
			r.Count("obs_selection_rule_consistent_batches", 1)
			for _, f := range b.fails {
				k := rule[f.pr.priv[0]&7]
				if k < 0 {
					r.Count("fail_unpredicted", 1)
					continue
				}
				if f.pr.rep(k) {
					c.Violationf("fail/predicted-dirty-key-has-representative", map[string]any{"priv": hx(f.pr.priv[:]), "tweak": f.tweak, "predicted_pub": hx(f.pr.cand[k][:]), "coset": k},
						"priv %x tweak %#02x: generation reports no representative; every success in this batch with priv[0]&7 = %d lies in coset %d, and clamp(priv)*B + T%d = %x has a representative", f.pr.priv, f.tweak, f.pr.priv[0]&7, k, k, f.pr.cand[k])
				} else {
					r.Count("control_fail_confirmed_no_representative", 1)
				}
			}
		}
	}
	if b.okPrivs >= coverageMin {
		r.Count("coverage_judged_batches", 1)
		r.Count("coverage_judged_batches_"+b.src, 1)
		missing := []int{}
		for k, n := range b.hist {
			if n == 0 {
				missing = append(missing, k)
			}
		}
		if len(missing) > 0 {
			c.Violationf("coset-coverage/"+b.src, map[string]any{"histogram": b.hist, "keys": b.okPrivs}, "%d generated keys, coset histogram %v: cosets %v of the prime-order subgroup never appear", b.okPrivs, b.hist, missing)
		}
	} else {
		r.Count("coverage_unjudged_batches", 1)
	}
	r.Max("max_keys_in_batch", int64(b.okPrivs))
}

// ---- workload generators ---------------------------------------------------

func randBytes(rng *rand.Rand) []byte {
	b := make([]byte, 32)
	for i := 0; i < 32; i += 8 {
		v := rng.Uint64()
		for j := 0; j < 8; j++ {
			b[i+j] = byte(v >> (8 * j))
		}
	}
	return b
}

func rand32(rng *rand.Rand) (a [32]byte) {
	copy(a[:], randBytes(rng))
	return
}

func leBytes(x *big.Int) (a [32]byte) {
	be := new(big.Int).And(x, mask256).Bytes()
	for i := range be {
		a[i] = be[len(be)-1-i]
	}
	return
}

var (
	mask256 = new(big.Int).Sub(new(big.Int).Lsh(big.NewInt(1), 256), big.NewInt(1))
	two254  = new(big.Int).Lsh(big.NewInt(1), 254)
)

// shaped returns a 32-byte string: mostly uniform, sometimes small, sparse,
// dense, or close to 2^254 / p / 2^255 / 2^256.
func shaped(rng *rand.Rand) (a [32]byte, class string) {
	switch v := rng.IntN(20); {
	case v < 13:
		return rand32(rng), "uniform"
	case v < 15: // small
		x := new(big.Int).Rsh(ell2.FromBytes(randBytes(rng)), uint(rng.IntN(256)))
		return leBytes(x), "small"
	case v < 16: // sparse
		for i, n := 0, 1+rng.IntN(4); i < n; i++ {
			bit := rng.IntN(256)
			a[bit/8] |= 1 << (bit % 8)
		}
		return a, "sparse"
	case v < 17: // dense
		for i := range a {
			a[i] = 0xff
		}
		for i, n := 0, 1+rng.IntN(4); i < n; i++ {
			bit := rng.IntN(256)
			a[bit/8] &^= 1 << (bit % 8)
		}
		return a, "dense"
	default: // near a boundary
		bases := []*big.Int{two254, ell2.P, new(big.Int).Lsh(big.NewInt(1), 255), new(big.Int).Lsh(big.NewInt(1), 256), halfP, new(big.Int).Sub(two254, big.NewInt(19))}
		span := []int{64, 1 << 12, 1 << 30}[rng.IntN(3)]
		x := new(big.Int).Add(bases[rng.IntN(len(bases))], big.NewInt(int64(rng.IntN(2*span)-span)))
		return leBytes(x), "boundary"
	}
}

type namedString struct {
	name string
	s    [32]byte
}

func edgeStrings() []namedString {
	var l []namedString
	add := func(name string, x *big.Int) { l = append(l, namedString{name, leBytes(x)}) }
	n := func(v int64) *big.Int { return big.NewInt(v) }
	pw := func(k uint) *big.Int { return new(big.Int).Lsh(n(1), k) }
	off := func(x *big.Int, d int64) *big.Int { return new(big.Int).Add(x, n(d)) }
	add("0", n(0))
	add("1", n(1))
	add("2", n(2))
	add("3", n(3))
	add("p-2", off(ell2.P, -2))
	add("p-1", off(ell2.P, -1))
	add("p", ell2.P)
	add("p+1", off(ell2.P, 1))
	add("(p-1)/2", halfP)
	add("(p+1)/2", off(halfP, 1))
	add("2^254-20", off(pw(254), -20))
	add("2^254-19", off(pw(254), -19))
	add("2^254-18", off(pw(254), -18))
	add("2^254-1", off(pw(254), -1))
	add("2^254", pw(254))
	add("2^254+1", off(pw(254), 1))
	add("2^255-20", off(pw(255), -20))
	add("2^255-1", off(pw(255), -1))
	add("2^255", pw(255))
	add("2^256-1", off(pw(256), -1))
	add("sqrt(-1)", ell2.SqrtM1)
	add("-sqrt(-1)", ell2.Neg(ell2.SqrtM1))
	add("A", ell2.A)
	add("-A", ell2.Neg(ell2.A))
	add("9", n(9))
	for i := uint(0); i < 256; i++ {
		add(fmt.Sprintf("bit%d", i), pw(i))
		add(fmt.Sprintf("allones-bit%d", i), new(big.Int).Sub(off(pw(256), -1), pw(i)))
	}
	for i := 0; i < 32; i++ {
		var a [32]byte
		a[i] = 0xff
		l = append(l, namedString{fmt.Sprintf("byte%d", i), a})
	}
	return l
}

// ---- decoding --------------------------------------------------------------

type decStats struct{ calls, bases, nonzeroTop int64 }

// judgeDecode decodes base under the four settings of the two top bits.
func judgeDecode(c *mon.Case, r *mon.Run, base [32]byte, class string, st *decStats, wantU *big.Int) {
	ref := ell2.Decode(base[:])
	if wantU != nil {
		if w := ell2.Bytes(wantU); w != ref {
			r.Inconclusive(fmt.Sprintf("oracle self-check: representative %x built for u = %x maps to %x in the reference", base, w, ref))
		}
	}
	var outs [4][32]byte
	for top := 0; top < 4; top++ {
		s := base
		s[31] = s[31]&0x3f | byte(top)<<6
		rp := ntor.Representative(s)
		outs[top] = *rp.ToPublic().Bytes()
		st.calls++
		if top != 0 {
			st.nonzeroTop++
		}
	}
	st.bases++
	low := base
	low[31] &= 0x3f
	r.Distinct("nontrivial", "dec:"+string(low[:]))
	wit := map[string]any{"string_low254": hx(low[:]), "class": class, "ref_map": hx(ref[:]),
		"ToPublic_top00": hx(outs[0][:]), "ToPublic_top01": hx(outs[1][:]), "ToPublic_top10": hx(outs[2][:]), "ToPublic_top11": hx(outs[3][:])}
	if outs[0] != ref {
		c.Violationf("decode/differs-from-ref-map", wit, "ToPublic(%x) = %x, reference Elligator 2 map gives %x", low, outs[0], ref)
	}
	for top := 1; top < 4; top++ {
		if outs[top] != outs[0] {
			c.Violationf("decode/depends-on-top-bits", wit, "ToPublic of %x with top bits %02b = %x, with top bits 00 = %x (reference %x)", low, top, outs[top], outs[0], ref)
			break
		}
	}
}

func (st *decStats) flush(r *mon.Run) {
	r.Count("evaluations", st.calls)
	r.Count("decodes", st.calls)
	r.Count("decode_strings", st.bases)
	r.Count("control_decodes_with_nonzero_top_bits", st.nonzeroTop)
}

// ---- the check ---------------------------------------------------------------

// concurrentKeygen: generation is a pure function of (private key, tweak), so
// results obtained while many goroutines generate keys at once must equal the
// results of the same calls made one after the other (obfs4proxy generates a
// key per handshake, concurrently).  The oracle is exact and needs no
// reference arithmetic.
func coldStart(c *mon.Case, r *mon.Run, seed uint64) {
	rng := mon.NewRand(seed)
	const workers = 32
	type res struct {
		ok        bool
		pub, repr [32]byte
		panicked  string
	}
	privs := make([][32]byte, workers)
	tws := make([]byte, workers)
	got := make([]res, workers)
	for i := range privs {
		privs[i] = rand32(rng)
		tws[i] = byte(rng.Uint32())
	}
	var ready, wg sync.WaitGroup
	start := make(chan struct{})
	for w := 0; w < workers; w++ {
		w := w
		ready.Add(1)
		wg.Add(1)
		go func() {
			defer wg.Done()
			defer func() {
				if e := recover(); e != nil {
					got[w].panicked = fmt.Sprint(e)
				}
			}()
			p := privs[w]
			ready.Done()
			<-start
			got[w].ok = ntor.VerifScalarBaseMult(&got[w].pub, &got[w].repr, &p, tws[w])
		}()
	}
	ready.Wait()
	close(start)
	wg.Wait()
	bad := 0
	first := ""
	for w := range got {
		var want res
		p := privs[w]
		want.ok = ntor.VerifScalarBaseMult(&want.pub, &want.repr, &p, tws[w])
		g := got[w]
		if g.panicked != "" || g.ok != want.ok || (g.ok && (g.pub != want.pub || g.repr != want.repr)) {
			bad++
			if first == "" {
				first = fmt.Sprintf("priv %x tweak %#x: first-use call ok=%v pub=%x panic=%q, the same call alone ok=%v pub=%x", privs[w], tws[w], g.ok, g.pub, g.panicked, want.ok, want.pub)
			}
		}
	}
	r.Count("evaluations", workers)
	r.Count("first_use_concurrent_calls", workers)
	if bad > 0 {
		c.Violation("concurrent/first-use", fmt.Sprintf("%d of %d generation calls made at the same moment as the first ones of the process failed, panicked or returned something else than the same call made alone (%s)", bad, workers, first), nil)
	} else {
		r.Count("control_first_use_concurrent_equals_sequential", 1)
	}
}

func concurrentKeygen(c *mon.Case, r *mon.Run, seed uint64, calls int) {
	rng := mon.NewRand(seed)
	const nIn = 256
	type in struct {
		priv [32]byte
		tw   byte
	}
	type out struct {
		ok        bool
		pub, repr [32]byte
	}
	ins := make([]in, nIn)
	want := make([]out, nIn)
	for i := range ins {
		ins[i].priv = rand32(rng)
		ins[i].tw = byte(rng.Uint32())
		want[i].ok = ntor.VerifScalarBaseMult(&want[i].pub, &want[i].repr, &ins[i].priv, ins[i].tw)
	}
	workers := 16
	var wg sync.WaitGroup
	var bad atomic.Int64
	var firstBad atomic.Int64
	firstBad.Store(-1)
	for w := 0; w < workers; w++ {
		w := w
		wg.Add(1)
		go func() {
			defer wg.Done()
			for k := 0; k < calls/workers; k++ {
				i := (k*7 + w*13) % nIn
				var got out
				p := ins[i].priv
				got.ok = ntor.VerifScalarBaseMult(&got.pub, &got.repr, &p, ins[i].tw)
				if got.ok != want[i].ok || (got.ok && (got.pub != want[i].pub || got.repr != want[i].repr)) {
					bad.Add(1)
					firstBad.CompareAndSwap(-1, int64(i))
				}
				if got.ok {
					rp := ntor.Representative(got.repr)
					if *rp.ToPublic().Bytes() != got.pub {
						bad.Add(1)
						firstBad.CompareAndSwap(-1, int64(i))
					}
				}
			}
		}()
	}
	wg.Wait()
	r.Count("evaluations", int64(calls))
	r.Count("concurrent_generation_calls", int64(calls))
	if n := bad.Load(); n > 0 {
		i := firstBad.Load()
		c.Violation("concurrent/result-differs-from-sequential", fmt.Sprintf("%d of %d generation calls made concurrently from %d goroutines returned something else than the same call made alone, or a representative that does not decode to the returned public key (first: input %d, priv %x tweak %#x)", n, calls, workers, i, ins[i].priv, ins[i].tw), nil)
	} else {
		r.Count("control_concurrent_equals_sequential", 1)
	}
}

// sharedDecode: decoding is a pure function of the representative and must
// leave it alone, so one Representative value may be decoded by many
// goroutines at once while others merely read it (obfs4 keeps the
// representative of a session key around while handshakes run in parallel).
// Decoders compare with the sequential result, readers with the original
// bytes, and at the end the shared representatives must be unchanged.
func sharedDecode(c *mon.Case, r *mon.Run, seed uint64, rounds int) {
	rng := mon.NewRand(seed)
	const nIn = 128
	orig := make([][32]byte, nIn)
	shared := make([]ntor.Representative, nIn)
	want := make([][32]byte, nIn)
	for i := range orig {
		orig[i] = rand32(rng)
		orig[i][31] = orig[i][31]&0x3f | byte(i%4)<<6 // all four settings of the top bits
		own := ntor.Representative(orig[i])
		want[i] = *own.ToPublic().Bytes()
		shared[i] = ntor.Representative(orig[i])
	}
	workers := 16
	var wg sync.WaitGroup
	var badDecode, badRead atomic.Int64
	var firstBad atomic.Int64
	firstBad.Store(-1)
	for w := 0; w < workers; w++ {
		w := w
		wg.Add(1)
		go func() {
			defer wg.Done()
			for k := 0; k < rounds; k++ {
				i := (k*5 + w*11) % nIn
				if w%2 == 0 {
					if *shared[i].ToPublic().Bytes() != want[i] {
						badDecode.Add(1)
						firstBad.CompareAndSwap(-1, int64(i))
					}
				} else if *shared[i].Bytes() != orig[i] {
					badRead.Add(1)
					firstBad.CompareAndSwap(-1, int64(i))
				}
			}
		}()
	}
	wg.Wait()
	changed := 0
	for i := range shared {
		if *shared[i].Bytes() != orig[i] {
			changed++
			firstBad.CompareAndSwap(-1, int64(i))
		}
	}
	r.Count("evaluations", int64(workers*rounds))
	r.Count("shared_representative_decodes", int64(workers/2*rounds))
	r.Count("shared_representative_reads", int64(workers/2*rounds))
	if bd, br := badDecode.Load(), badRead.Load(); bd > 0 || br > 0 || changed > 0 {
		i := firstBad.Load()
		c.Violation("decode/shared-representative-modified", fmt.Sprintf("%d representatives decoded concurrently by %d goroutines while %d others only read them: %d decodes differ from the sequential result, %d reads saw other bytes than the original, %d representatives are changed afterwards (first: %x, top bits %02b)", nIn, workers/2, workers/2, bd, br, changed, orig[i], orig[i][31]>>6), nil)
	} else {
		r.Count("control_shared_decode_equals_sequential", 1)
	}
}

func TestCheck(t *testing.T) {
	r := mon.Start(t, "C07")
	defer r.Finish()
	// math/big allocates for every field operation while the live heap stays
	// small: collect less often (16 shard processes share the machine).
	defer debug.SetGCPercent(debug.SetGCPercent(1000))
	r.Note("rule", "generation: (a) grid batches: PRNG upper parts x all 8 values of priv[0]&7, each under 4 tweaks (one systematic so that all 256 occur, 3 PRNG) and the first 2 upper parts of every batch under all 256 tweaks; (b) batches of shaped PRNG private keys (uniform / small / sparse / dense / near 2^254, p, 2^255) under 2 PRNG tweaks; (c) ntor.NewKeypair(true) over a seeded crypto/rand.Reader; (d) structured private keys (0..8, all-ones, every single bit, every all-ones-minus-one-bit, byte patterns) x all 8 low-bit values x 8 chosen tweaks (thorough: all 256). decoding: shaped PRNG strings, named edge strings, every representative of low-order / small / PRNG u-coordinates built with the reference inverse map; every string under the four settings of its two top bits. concurrency: 16 goroutines generating keys at once against sequential results; 8 goroutines decoding 128 shared representatives (all four top-bit settings) while 8 others read them. A generation call is one (priv, tweak); non-trivial/distinct = distinct private keys (each under 2..256 tweaks) and distinct 254-bit decode inputs. Coset = index k of the torsion point with pub = u(clamp(priv)*B + k*T8), found by reference Edwards arithmetic.")
	r.Note("exhaustive_part", "all 256 tweaks for 16 private keys per grid batch and (thorough) for every structured key; all 8 values of priv[0]&7 for every grid upper part and structured pattern; all 256 single-bit and 256 all-ones-minus-one-bit strings as decode inputs and as private keys; all four top-bit settings for every decode input; every representative (<= 4) of each targeted u-coordinate")
	r.Note("not_demanded", "which of the (up to four) representatives is returned, that it lies in [0,(p-1)/2], what the output buffers hold after a failure, how NewKeypair derives key and tweak from the CSPRNG, any statistical uniformity: reported as obs_* counters only")

	// (00) the first use in this process is a concurrent one: every goroutine
	// makes its first generation call at the same moment, before anything else
	// in the process has generated a key; the same calls made alone afterwards
	// must give the same results.  (Once per shard process: whatever the
	// implementation sets up lazily is set up only once.)
	r.EveryShard("gen/first-use-concurrent", func(c *mon.Case) { coldStart(c, r, r.Sub("cold", r.Shard)) })
	// (0) concurrent generation against sequential results
	for ci := 0; ci < r.Pick(8, 32); ci++ {
		ci := ci
		r.Case(fmt.Sprintf("gen/concurrent/%02d", ci), func(c *mon.Case) {
			concurrentKeygen(c, r, r.Sub("conc", ci), r.Pick(40000, 200000))
			r.Distinct("nontrivial", fmt.Sprintf("concurrent/%d", ci))
		})
	}

	// (0b) concurrent decoding of shared representatives
	for ci := 0; ci < r.Pick(4, 16); ci++ {
		ci := ci
		r.Case(fmt.Sprintf("decode/shared/%02d", ci), func(c *mon.Case) {
			sharedDecode(c, r, r.Sub("shared", ci), r.Pick(20000, 100000))
			r.Distinct("nontrivial", fmt.Sprintf("shared-decode/%d", ci))
		})
	}

	// (a) grid batches
	nGrid := r.Pick(4, 64)
	uppers := 150
	for bi := 0; bi < nGrid; bi++ {
		bi := bi
		r.Case(fmt.Sprintf("gen/grid/%02d", bi), func(c *mon.Case) {
			rng := mon.NewRand(r.Sub("grid", bi))
			b := newBatch(c, r, "hook", rng)
			b.sample = bi == 0
			idx := bi * uppers * 8
			for ui := 0; ui < uppers; ui++ {
				up := rand32(rng)
				for low := 0; low < 8; low++ {
					priv := up
					priv[0] = priv[0]&^7 | byte(low)
					var tweaks []byte
					if ui < 2 {
						for tw := 0; tw < 256; tw++ {
							tweaks = append(tweaks, byte(tw))
						}
						r.Count("tweaks_all256_keys", 1)
					} else {
						tweaks = []byte{byte(idx), byte(rng.Uint32()), byte(rng.Uint32()), byte(rng.Uint32())}
					}
					idx++
					b.genPriv(priv, tweaks)
				}
			}
			b.finish()
		})
	}

	// (b) shaped PRNG private keys
	nRand := r.Pick(4, 64)
	for bi := 0; bi < nRand; bi++ {
		bi := bi
		r.Case(fmt.Sprintf("gen/rand/%02d", bi), func(c *mon.Case) {
			rng := mon.NewRand(r.Sub("rand", bi))
			b := newBatch(c, r, "hook", rng)
			seen := map[[32]byte]bool{}
			for i := 0; i < 1200; i++ {
				priv, class := shaped(rng)
				if seen[priv] { // keys counted towards coset coverage are distinct
					r.Count("gen_duplicate_privs_skipped", 1)
					continue
				}
				seen[priv] = true
				r.Count("gen_priv_class_"+class, 1)
				b.genPriv(priv, []byte{byte(rng.Uint32()), byte(rng.Uint32())})
			}
			b.finish()
		})
	}

	// (c) NewKeypair over a seeded CSPRNG
	nNK := r.Pick(4, 64)
	perNK := r.Pick(600, 800)
	for bi := 0; bi < nNK; bi++ {
		bi := bi
		r.Case(fmt.Sprintf("gen/newkeypair/%02d", bi), func(c *mon.Case) {
			rng := mon.NewRand(r.Sub("nk", bi))
			b := newBatch(c, r, "newkeypair", rng)
			b.sample = bi == 0
			src := steer.New(r.Sub("nk-csprng", bi))
			restore := steer.Install(src)
			defer restore()
			for i := 0; i < perNK; i++ {
				kp, err := ntor.NewKeypair(true)
				r.Count("evaluations", 1)
				if err != nil || kp == nil || !kp.HasElligator() {
					c.Violationf("newkeypair/no-keypair", nil, "NewKeypair(true) = %v, %v", kp, err)
					continue
				}
				priv, pub, repr := *kp.Private().Bytes(), *kp.Public().Bytes(), *kp.Representative().Bytes()
				r.Count("newkeypair_keys", 1)
				r.Distinct("nontrivial", fmt.Sprintf("nk:%x", priv))
				pr := newPrivRef(priv)
				b.judgeKey(pr, pub, repr, -1, map[[32]byte]int{})
				b.okPrivs++
			}
			r.Count("newkeypair_csprng_draws", src.Draws)
			b.finish()
		})
	}

	// (d) structured private keys
	allTweaks := r.Thorough()
	for low := 0; low < 8; low++ {
		low := low
		r.Case(fmt.Sprintf("gen/structured/low%d", low), func(c *mon.Case) {
			rng := mon.NewRand(r.Sub("structured", low))
			b := newBatch(c, r, "hook", rng)
			tweaks := []byte{0x00, 0x01, 0x3f, 0x40, 0x80, 0xc0, 0xfe, 0xff}
			if allTweaks {
				tweaks = tweaks[:0]
				for tw := 0; tw < 256; tw++ {
					tweaks = append(tweaks, byte(tw))
				}
			}
			var pats []namedString
			for v := int64(0); v <= 8; v += 8 {
				pats = append(pats, namedString{fmt.Sprint(v), leBytes(big.NewInt(v))})
			}
			for _, e := range edgeStrings() {
				switch e.name {
				case "0", "1", "2", "3":
				default:
					pats = append(pats, e)
				}
			}
			seen := map[[32]byte]bool{}
			for _, p := range pats {
				priv := p.s
				priv[0] = priv[0]&^7 | byte(low)
				if seen[priv] {
					continue
				}
				seen[priv] = true
				r.Count("gen_structured_privs", 1)
				r.Distinct("edge_inputs", "priv:"+p.name)
				b.genPriv(priv, tweaks)
			}
			b.finish()
		})
	}

	// (e) decoding: shaped PRNG strings
	nDecB := r.Pick(8, 64)
	perDec := r.Pick(2500, 31250)
	for bi := 0; bi < nDecB; bi++ {
		bi := bi
		r.Case(fmt.Sprintf("dec/rand/%02d", bi), func(c *mon.Case) {
			rng := mon.NewRand(r.Sub("dec", bi))
			var st decStats
			for i := 0; i < perDec; i++ {
				s, class := shaped(rng)
				judgeDecode(c, r, s, class, &st, nil)
				if i == 0 && bi == 0 {
					rp := ntor.Representative(s)
					r.Sample(map[string]any{"kind": "decode", "string": hx(s[:]), "ToPublic": hx(rp.ToPublic().Bytes()[:]), "class": class})
				}
			}
			st.flush(r)
		})
	}

	// (f) decoding: named edge strings
	r.Case("dec/edge", func(c *mon.Case) {
		var st decStats
		for _, e := range edgeStrings() {
			judgeDecode(c, r, e.s, "edge", &st, nil)
			r.Count("edge_strings", 1)
			r.Distinct("edge_inputs", "dec:"+e.name)
		}
		rp := ntor.Representative(leBytes(ell2.P))
		r.Sample(map[string]any{"kind": "decode edge", "string": "p (little-endian)", "ToPublic": hx(rp.ToPublic().Bytes()[:])})
		st.flush(r)
	})

	// (g) decoding: representatives built with the reference inverse map
	r.Case("dec/targets", func(c *mon.Case) {
		var st decStats
		type target struct {
			name string
			u    *big.Int
			low  bool // a low-order u-coordinate (of the curve or of the twist)
		}
		var ts []target
		for k, u := range ell2.LowOrderU() {
			if u != nil && k <= 4 { // u(T_k) = u(T_{8-k})
				ts = append(ts, target{fmt.Sprintf("low-order u(T%d)", k), u, true})
			}
		}
		ts = append(ts, target{"twist low-order -1", ell2.Neg(big.NewInt(1)), true}, target{"-A", ell2.Neg(ell2.A), false})
		for v := int64(2); v < 64; v++ {
			ts = append(ts, target{fmt.Sprintf("small u=%d", v), big.NewInt(v), false}, target{fmt.Sprintf("small u=-%d", v), ell2.Neg(big.NewInt(v)), false})
		}
		var hit []string
		for _, tg := range ts {
			reps := ell2.Representatives(tg.u)
			if tg.low {
				r.Count("loworder_targets_tried", 1)
			}
			if len(reps) == 0 {
				continue
			}
			for _, rep := range reps {
				if rep.Cmp(two254) >= 0 {
					r.Count("target_reps_not_encodable_in_254_bits", 1)
					continue
				}
				judgeDecode(c, r, leBytes(rep), "target", &st, tg.u)
				r.Count("target_reps_decoded", 1)
				if tg.low {
					r.Count("loworder_target_reps_decoded", 1)
					hit = append(hit, fmt.Sprintf("%s<-r=%x", tg.name, rep))
				}
			}
			r.Distinct("edge_inputs", "target:"+tg.name)
		}
		r.Note("loworder_targets", fmt.Sprintf("low-order u-coordinates with a representative, decoded from it: %v", hit))
		st.flush(r)
	})
	nInv := r.Pick(4, 16)
	perInv := r.Pick(250, 4000)
	for bi := 0; bi < nInv; bi++ {
		bi := bi
		r.Case(fmt.Sprintf("dec/inverse/%02d", bi), func(c *mon.Case) {
			rng := mon.NewRand(r.Sub("inv", bi))
			var st decStats
			for i := 0; i < perInv; i++ {
				u := ell2.Red(ell2.FromBytes(randBytes(rng)))
				reps := ell2.Representatives(u)
				if len(reps) == 0 {
					r.Count("inverse_u_without_representative", 1)
					continue
				}
				r.Count("inverse_u_with_representative", 1)
				for _, rep := range reps {
					if rep.Cmp(two254) >= 0 {
						r.Count("target_reps_not_encodable_in_254_bits", 1)
						continue
					}
					judgeDecode(c, r, leBytes(rep), "inverse", &st, u)
					r.Count("target_reps_decoded", 1)
				}
			}
			st.flush(r)
		})
	}
}
