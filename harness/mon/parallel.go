package mon

import (
	"fmt"
	"sync"
	"testing/synctest"
)

// Parallel is the counterpart of Interleave on all processors: every endpoint
// of every link gets a writer and a reader goroutine of its own, all running
// at once, each direction carrying perDir bytes of its own position-dependent
// stream in writes of 1..maxWrite bytes and reads into buffers of assorted
// sizes.  It must be called inside a bubble; it returns at quiescence after
// all writers are through.  The race detector watches whatever the
// implementation shares between the connections of a process; the stream
// oracle (a key per connection and direction) catches what the sharing does
// to the data.  The caller closes the links afterwards and then calls the
// returned function, which waits for the readers to end.
//
// Violations (under sig+"/…"): stream-mismatch, stream-excess, incomplete
// (a direction did not deliver everything without error), write-error.
func Parallel(c *Case, r *Run, sig string, links []Link, perDir int, maxWrite int, seed uint64) (wait func()) {
	type dir struct {
		name      string
		st        Stream
		written   int64
		delivered int64
		mismatch  int64
		rerr      error
		werr      error
	}
	var mu sync.Mutex
	var writers, all sync.WaitGroup
	dirs := make([]*dir, 0, 2*len(links))
	for li, l := range links {
		ab := &dir{name: l.Name + "/A-to-B", st: Stream{Key: seed ^ uint64(2*li+1)*0x9e3779b97f4a7c15}, mismatch: -1}
		ba := &dir{name: l.Name + "/B-to-A", st: Stream{Key: seed ^ uint64(2*li+2)*0x9e3779b97f4a7c15}, mismatch: -1}
		dirs = append(dirs, ab, ba)
		for ei, e := range []struct {
			out, in *dir
		}{{ab, ba}, {ba, ab}} {
			conn := l.A
			if ei == 1 {
				conn = l.B
			}
			out, in := e.out, e.in
			wseed := seed ^ uint64(4*li+ei+1)<<20
			rd := []int{3000, 64, 1024, 20000, 1448, 7, 32768, 255}[(li*2+ei)%8]
			writers.Add(1)
			all.Add(2)
			c.Go(func() { writers.Done(); all.Done() }, func() {
				rng := NewRand(wseed)
				var off int64
				for left := perDir; left > 0; {
					n := 1 + rng.IntN(maxWrite)
					if n > left {
						n = left
					}
					m, err := conn.Write(out.st.Bytes(off, n))
					if err != nil || m != n {
						mu.Lock()
						out.werr = fmt.Errorf("Write(%d) = %d, %v", n, m, err)
						mu.Unlock()
						return
					}
					off += int64(n)
					left -= n
					mu.Lock()
					out.written = off
					mu.Unlock()
				}
			})
			c.Go(all.Done, func() {
				buf := make([]byte, rd)
				for {
					n, err := conn.Read(buf)
					mu.Lock()
					if n > 0 {
						if i := in.st.Check(buf[:n], in.delivered); i >= 0 && in.mismatch < 0 {
							in.mismatch = in.delivered + int64(i)
						}
						in.delivered += int64(n)
					}
					if err != nil {
						in.rerr = err
					}
					mu.Unlock()
					if err != nil {
						return
					}
				}
			})
		}
	}
	// (writers may sleep between segments — inter-arrival-time obfuscation,
	// polling transports: waiting for them lets the virtual clock run; then
	// wait for the readers to have consumed what is in flight)
	writers.Wait()
	synctest.Wait()
	r.Count("evaluations", 1)
	r.Count("parallel_connection_groups", 1)
	ok := true
	mu.Lock()
	for _, d := range dirs {
		wit := map[string]any{"direction": d.name, "connections": len(links), "per_direction": perDir, "written": d.written, "delivered": d.delivered, "read_err": fmt.Sprint(d.rerr), "write_err": fmt.Sprint(d.werr), "seed": fmt.Sprintf("%x", seed)}
		switch {
		case d.mismatch >= 0:
			ok = false
			c.Violation(sig+"/stream-mismatch", fmt.Sprintf("%s: byte %d handed to the application is not byte %d of what the peer wrote on this connection (%d connections in parallel)", d.name, d.mismatch, d.mismatch, len(links)), wit)
		case d.delivered > d.written:
			ok = false
			c.Violation(sig+"/stream-excess", fmt.Sprintf("%s: %d bytes delivered, %d written", d.name, d.delivered, d.written), wit)
		case d.werr != nil:
			ok = false
			c.Violation(sig+"/write-error", fmt.Sprintf("%s: %v", d.name, d.werr), wit)
		case d.delivered != int64(perDir) || d.rerr != nil:
			ok = false
			c.Violation(sig+"/incomplete", fmt.Sprintf("%s: %d of %d bytes delivered at quiescence, read error %v (%d connections in parallel)", d.name, d.delivered, perDir, d.rerr, len(links)), wit)
		}
		r.Count("parallel_bytes_verified", d.delivered)
	}
	mu.Unlock()
	if ok {
		r.Count("parallel_connection_groups_verified", 1)
	}
	// the caller closes the links and then calls wait: the readers end with that
	return all.Wait
}
