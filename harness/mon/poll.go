package mon

import (
	"errors"
	"net"
	"os"
	"sync/atomic"
	"time"
)

// Poller turns the readers of a connection into polling readers: a reader
// that arms a read deadline before every Read, takes an expired deadline for
// "nothing yet" and asks again — what net.Conn promises to support ("after a
// deadline has been exceeded, the connection can be refreshed by setting a
// deadline in the future").  A transport that loses its place in the stream
// when a Read times out half-way through something, or that remembers the
// timeout as the connection's fate, delivers wrong bytes or none to such a
// reader and the right ones to every reader that blocks.
//
// Once started a Poller stays on until the connection ends (stopping would
// race with a deadline armed a moment before).
type Poller struct {
	Interval time.Duration
	on       atomic.Bool
	timeouts atomic.Int64
	partial  atomic.Int64
}

// Start switches the readers to polling and wakes those blocked in a Read
// without deadline (they see one expired deadline and go on polling).
func (p *Poller) Start(conns ...net.Conn) {
	if p.on.Swap(true) {
		return // the readers poll already
	}
	for _, c := range conns {
		if c != nil {
			c.SetReadDeadline(time.Now())
		}
	}
}

func (p *Poller) On() bool        { return p.on.Load() }
func (p *Poller) Timeouts() int64 { return p.timeouts.Load() }

// Read is conn.Read for a reader that polls when the Poller is on.
func (p *Poller) Read(conn net.Conn, buf []byte) (int, error) {
	early := 0
	for {
		var due time.Time
		if p.on.Load() {
			due = time.Now().Add(p.Interval)
			conn.SetReadDeadline(due)
		}
		n, err := conn.Read(buf)
		if err != nil && p.on.Load() && IsTimeout(err) {
			if !due.IsZero() && time.Now().Before(due) {
				// a timeout before the deadline that is in force.  It can be an
				// earlier expiry reported late (held back till the bytes that
				// came with it were handed over): that happens once per expiry.
				// A timeout that keeps coming back without the clock moving is
				// not the expiry of anything this reader asked for.
				if early++; early > 4 {
					return n, err
				}
			} else {
				early = 0
			}
			p.timeouts.Add(1)
			if n > 0 {
				p.partial.Add(1)
				return n, nil
			}
			continue
		}
		return n, err
	}
}

// IsTimeout reports whether err is the expiry of a deadline.
func IsTimeout(err error) bool {
	if errors.Is(err, os.ErrDeadlineExceeded) {
		return true
	}
	var ne net.Error
	return errors.As(err, &ne) && ne.Timeout()
}
