// Package mon is the case runner shared by all checks: sharding, case logging
// (before execution, so that a process-fatal event can be attributed), panic
// capture, counters, distinct-state sets, samples, violations, and the shard
// result file that bin/check aggregates into evidence/<id>.json.
package mon

import (
	"crypto/sha256"
	"encoding/binary"
	"encoding/hex"
	"encoding/json"
	"fmt"
	"os"
	"regexp"
	"runtime"
	"runtime/debug"
	"sort"
	"strconv"
	"strings"
	"sync"
	"sync/atomic"
	"testing"
	"testing/synctest"
	"time"
)

// Violation is one contradiction of an oracle.
type Violation struct {
	Property  string `json:"property"`
	Signature string `json:"signature"` // stable: oracle name + normalised witness
	Case      string `json:"case"`      // case name; VERIF_ONLY=<case> replays it
	Detail    string `json:"detail"`
	Witness   any    `json:"witness,omitempty"`
}

// Result is what one shard process writes.
type Result struct {
	Property   string              `json:"property"`
	Tier       string              `json:"tier"`
	Seed       int64               `json:"seed"`
	Shard      int                 `json:"shard"`
	NShards    int                 `json:"nshards"`
	Cases      int                 `json:"cases"`
	Counters   map[string]int64    `json:"counters"`
	Max        map[string]int64    `json:"max"`
	Min        map[string]int64    `json:"min"`
	Distinct   map[string][]string `json:"distinct"` // set name -> hex hashes (capped)
	DistinctN  map[string]int      `json:"distinct_n"`
	Samples    []any               `json:"samples"`
	Notes      map[string]string   `json:"notes"`
	Violations []Violation         `json:"violations"`
	Inconcl    []string            `json:"inconclusive"`
	Completed  bool                `json:"completed"`
	Aborted    string              `json:"aborted,omitempty"` // the spin monitor ended the shard after recording a violation
}

// Run is the per-process state of a check.
type Run struct {
	T        *testing.T
	ID       string
	Tier     string
	Seed     int64
	Shard    int
	NShards  int
	only     *regexp.Regexp
	caseLog  *os.File
	outPath  string
	mu       sync.Mutex
	res      Result
	distinct map[string]map[[8]byte]struct{}
	caseIdx  int
	sigSeen  map[string]bool
	inCase   string
	maxSamp  int
	activity atomic.Int64 // moves whenever a monitor records anything
}

const distinctCap = 200000

// Start reads VERIF_TIER, VERIF_SEED, VERIF_SHARD ("i/n"), VERIF_ONLY (regexp
// on case names), VERIF_OUT (result file), VERIF_CASELOG.
func Start(t *testing.T, id string) *Run {
	r := &Run{T: t, ID: id, Tier: os.Getenv("VERIF_TIER"), NShards: 1, maxSamp: 6}
	if r.Tier != "thorough" {
		r.Tier = "quick"
	}
	if s := os.Getenv("VERIF_SEED"); s != "" {
		v, err := strconv.ParseInt(s, 10, 64)
		if err != nil {
			t.Fatalf("bad VERIF_SEED %q", s)
		}
		r.Seed = v
	}
	if s := os.Getenv("VERIF_SHARD"); s != "" {
		if _, err := fmt.Sscanf(s, "%d/%d", &r.Shard, &r.NShards); err != nil || r.NShards < 1 || r.Shard < 0 || r.Shard >= r.NShards {
			t.Fatalf("bad VERIF_SHARD %q", s)
		}
	}
	if s := os.Getenv("VERIF_ONLY"); s != "" {
		r.only = regexp.MustCompile(s)
	}
	if p := os.Getenv("VERIF_CASELOG"); p != "" {
		f, err := os.OpenFile(p, os.O_CREATE|os.O_WRONLY|os.O_TRUNC, 0o644)
		if err != nil {
			t.Fatal(err)
		}
		r.caseLog = f
	}
	r.outPath = os.Getenv("VERIF_OUT")
	r.res = Result{Property: id, Tier: r.Tier, Seed: r.Seed, Shard: r.Shard, NShards: r.NShards,
		Counters: map[string]int64{}, Max: map[string]int64{}, Min: map[string]int64{},
		Distinct: map[string][]string{}, DistinctN: map[string]int{}, Notes: map[string]string{}}
	r.distinct = map[string]map[[8]byte]struct{}{}
	return r
}

// Thorough reports whether the thorough tier was requested.
func (r *Run) Thorough() bool { return r.Tier == "thorough" }

// Pick returns q in the quick tier and th in the thorough tier.
func (r *Run) Pick(q, th int) int {
	if r.Thorough() {
		return th
	}
	return q
}

// Mine reports whether global case index i belongs to this shard.
func (r *Run) Mine(i int) bool { return i%r.NShards == r.Shard }

// Sub derives a 64-bit seed from the run seed and a list of labels.
func (r *Run) Sub(labels ...any) uint64 {
	h := sha256.New()
	fmt.Fprintf(h, "%d|%s", r.Seed, r.ID)
	for _, l := range labels {
		fmt.Fprintf(h, "|%v", l)
	}
	return binary.BigEndian.Uint64(h.Sum(nil))
}

// Case is the context handed to a case body.
type Case struct {
	R    *Run
	Name string
	T    *testing.T
}

// Case runs fn as case `name` if it belongs to this shard (cases are dealt
// round-robin in call order) and matches VERIF_ONLY.  The name is logged to
// disk before execution; a panic inside fn is a violation "panic".
func (r *Run) Case(name string, fn func(c *Case)) {
	idx := r.caseIdx
	r.caseIdx++
	if r.only != nil {
		if !r.only.MatchString(name) {
			return
		}
	} else if !r.Mine(idx) {
		return
	}
	r.runCase(name, false, fn)
}

// EveryShard runs fn as a case in every shard process (named name/shard-i):
// for what can only be observed once per process, such as the first use of
// something that initialises itself lazily.
func (r *Run) EveryShard(name string, fn func(c *Case)) {
	name = fmt.Sprintf("%s/shard-%02d", name, r.Shard)
	if r.only != nil && !r.only.MatchString(name) {
		return
	}
	r.runCase(name, false, fn)
}

// Bubble is Case with the body running inside a synctest bubble (virtual
// time, quiescence detection).
func (r *Run) Bubble(name string, fn func(c *Case)) {
	idx := r.caseIdx
	r.caseIdx++
	if r.only != nil {
		if !r.only.MatchString(name) {
			return
		}
	} else if !r.Mine(idx) {
		return
	}
	r.runCase(name, true, fn)
}

func (r *Run) runCase(name string, bubble bool, fn func(c *Case)) {
	if r.caseLog != nil {
		fmt.Fprintf(r.caseLog, "%s\n", name)
	}
	r.mu.Lock()
	r.res.Cases++
	r.mu.Unlock()
	c := &Case{R: r, Name: name, T: r.T}
	r.mu.Lock()
	r.inCase = name
	r.mu.Unlock()
	r.activity.Add(1)
	normal := false
	defer func() {
		if p := recover(); p != nil {
			normal = true
			msg := fmt.Sprint(p)
			st := string(debug.Stack())
			sig := "panic/" + normPanic(msg, st)
			if strings.HasPrefix(msg, "deadlock: ") {
				// synctest: the case body returned (or blocked) while goroutines
				// were still durably blocked.  Checks must close what they open;
				// reaching this is a harness-visible wedge.
				sig = "wedge/" + msg
			}
			c.Violation(sig, msg+"\n"+trimStack(st), nil)
		}
		if normal {
			r.mu.Lock()
			r.inCase = ""
			r.mu.Unlock()
		}
	}()
	if bubble {
		synctest.Test(r.T, func(t *testing.T) {
			c.T = t
			fn(c)
		})
	} else {
		fn(c)
	}
	normal = true
}

var reHex = regexp.MustCompile(`0x[0-9a-f]+|\b\d+\b`)

func normPanic(msg, stack string) string {
	// signature: message with numbers masked + innermost /repo frame
	m := reHex.ReplaceAllString(msg, "N")
	frame := ""
	for _, ln := range strings.Split(stack, "\n") {
		ln = strings.TrimSpace(ln)
		if strings.HasPrefix(ln, "gitlab.com/yawning/obfs4.git/") {
			frame = ln
			if i := strings.Index(frame, "("); i > 0 {
				frame = frame[:i]
			}
			break
		}
	}
	if len(m) > 120 {
		m = m[:120]
	}
	return m + "@" + strings.TrimPrefix(frame, "gitlab.com/yawning/obfs4.git/")
}

func trimStack(st string) string {
	lines := strings.Split(st, "\n")
	if len(lines) > 60 {
		lines = lines[:60]
	}
	return strings.Join(lines, "\n")
}

// Go runs fn in a new goroutine; a panic in it is recorded as a violation of
// this case instead of killing the process.  done (optional) is closed on exit.
func (c *Case) Go(done func(), fn func()) {
	go func() {
		defer func() {
			if p := recover(); p != nil {
				msg := fmt.Sprint(p)
				st := string(debug.Stack())
				c.Violation("panic/"+normPanic(msg, st), msg+"\n"+trimStack(st), nil)
			}
			if done != nil {
				done()
			}
		}()
		fn()
	}()
}

// Violation records a violation found by this case.
func (c *Case) Violation(sig, detail string, witness any) {
	r := c.R
	r.activity.Add(1)
	r.mu.Lock()
	defer r.mu.Unlock()
	r.res.Counters["violations_raw"]++
	if r.sigSeen == nil {
		r.sigSeen = map[string]bool{}
	}
	if r.sigSeen[sig] || len(r.res.Violations) >= 500 {
		return // one witness per signature and shard is enough
	}
	r.sigSeen[sig] = true
	r.res.Violations = append(r.res.Violations, Violation{Property: r.ID, Signature: sig, Case: c.Name, Detail: detail, Witness: witness})
}

// Violationf is Violation with a formatted detail.
func (c *Case) Violationf(sig string, witness any, format string, a ...any) {
	c.Violation(sig, fmt.Sprintf(format, a...), witness)
}

// Inconclusive records that part of the run could not reach a verdict.
func (r *Run) Inconclusive(why string) {
	r.mu.Lock()
	defer r.mu.Unlock()
	if len(r.res.Inconcl) < 50 {
		r.res.Inconcl = append(r.res.Inconcl, why)
	}
}

// Count adds n to a counter.
func (r *Run) Count(key string, n int64) {
	r.activity.Add(1)
	r.mu.Lock()
	r.res.Counters[key] += n
	r.mu.Unlock()
}

// Max/Min track extremes.
func (r *Run) Max(key string, v int64) {
	r.mu.Lock()
	if old, ok := r.res.Max[key]; !ok || v > old {
		r.res.Max[key] = v
	}
	r.mu.Unlock()
}
func (r *Run) Min(key string, v int64) {
	r.mu.Lock()
	if old, ok := r.res.Min[key]; !ok || v < old {
		r.res.Min[key] = v
	}
	r.mu.Unlock()
}

// Distinct adds key to the named set of distinct observations.
func (r *Run) Distinct(set string, key string) {
	r.activity.Add(1)
	h := sha256.Sum256([]byte(key))
	var k [8]byte
	copy(k[:], h[:8])
	r.mu.Lock()
	m := r.distinct[set]
	if m == nil {
		m = map[[8]byte]struct{}{}
		r.distinct[set] = m
	}
	m[k] = struct{}{}
	r.mu.Unlock()
}

// Note stores a free-text fact (last writer wins).
func (r *Run) Note(key, val string) {
	r.mu.Lock()
	r.res.Notes[key] = val
	r.mu.Unlock()
}

// Sample keeps up to a handful of written-out cases for the evidence file.
func (r *Run) Sample(v any) {
	r.mu.Lock()
	if len(r.res.Samples) < r.maxSamp {
		r.res.Samples = append(r.res.Samples, v)
	}
	r.mu.Unlock()
}

// ---- spin monitor -------------------------------------------------------
//
// A goroutine of the code under test that loops without ever blocking keeps a
// synctest bubble from becoming quiescent, so this one condition ("spins
// without consuming input") cannot be decided by state at quiescence: the case
// simply never gets there.  SpinWatch decides it from outside the bubble.  It
// needs the wall clock, but only as a sampling interval, never as a deadline
// for correct code: a violation is reported only if
//   - progress() (bytes moved over the in-memory wires of the process) and the
//     monitors' own activity counter have both stood still for quiet+gap of
//     wall time inside one case, and
//   - two goroutine dumps taken gap apart both show the same goroutine in state
//     running/runnable with a frame of the code under test on its stack.
// A goroutine that waits (channel, mutex, Cond, sleep, I/O) is in neither
// state, and legitimate computation in this code base lasts milliseconds.
// Anything else that hangs is left to the orchestrator's watchdog
// (inconclusive).  Only checks whose calls into the code under test are all
// wire-bound enable it.
var reGoroutine = regexp.MustCompile(`(?m)^goroutine (\d+) \[(running|runnable)[^\]]*\]:$`)

const underTest = "gitlab.com/yawning/obfs4.git/"

func spinning(dump string) map[string]string {
	out := map[string]string{}
	for _, blk := range strings.Split(dump, "\n\n") {
		m := reGoroutine.FindStringSubmatch(blk)
		if m == nil || !strings.Contains(blk, underTest) {
			continue
		}
		out[m[1]] = blk
	}
	return out
}

func allStacks() string {
	buf := make([]byte, 1<<20)
	for {
		n := runtime.Stack(buf, true)
		if n < len(buf) {
			return string(buf[:n])
		}
		buf = make([]byte, 2*len(buf))
	}
}

// SpinWatch starts the spin monitor for this process (call once, outside any
// bubble, before the first case).
func (r *Run) SpinWatch(progress func() int64) {
	quiet, gap := 30*time.Second, 10*time.Second
	if v := os.Getenv("VERIF_SPIN_QUIET_S"); v != "" {
		if n, err := strconv.Atoi(v); err == nil && n > 0 {
			quiet = time.Duration(n) * time.Second
		}
	}
	r.Note("spin_monitor", fmt.Sprintf("on: no wire bytes moved and no monitor activity for %v inside one case, then two goroutine dumps %v apart both showing the same goroutine running/runnable in code under test", quiet, gap))
	go func() {
		state := func() (string, int64) {
			r.mu.Lock()
			c := r.inCase
			r.mu.Unlock()
			return c, progress() + r.activity.Load()
		}
		lastCase, lastP := state()
		since := time.Now()
		for {
			time.Sleep(2 * time.Second)
			c, p := state()
			if c == "" || c != lastCase || p != lastP {
				lastCase, lastP, since = c, p, time.Now()
				continue
			}
			if time.Since(since) < quiet {
				continue
			}
			d1 := spinning(allStacks())
			if len(d1) == 0 {
				since = time.Now() // blocked, not spinning: not ours to judge
				continue
			}
			time.Sleep(gap)
			if c2, p2 := state(); c2 != c || p2 != p {
				lastCase, lastP, since = c2, p2, time.Now()
				continue
			}
			d2 := spinning(allStacks())
			for id, blk1 := range d1 {
				blk2, ok := d2[id]
				if !ok {
					continue
				}
				frame := ""
				for _, ln := range strings.Split(blk2, "\n") {
					ln = strings.TrimSpace(ln)
					if strings.HasPrefix(ln, underTest) {
						frame = strings.TrimPrefix(ln, underTest)
						if i := strings.LastIndex(frame, "("); i > 0 {
							frame = frame[:i]
						}
						break
					}
				}
				cs := &Case{R: r, Name: c}
				cs.Violation("spin/"+frame, fmt.Sprintf("goroutine %s was running/runnable in code under test in two dumps %v apart while no byte moved on any wire and no monitor recorded anything for %v (case %s)\n--- first dump\n%s\n--- second dump\n%s", id, gap, time.Since(since).Round(time.Second), c, trimStack(blk1), trimStack(blk2)), nil)
				r.abort("spin")
			}
			since = time.Now()
		}
	}()
}

// abort writes the shard result as it stands and ends the process.
func (r *Run) abort(why string) {
	r.mu.Lock()
	r.res.Aborted = why
	r.res.Completed = false
	if r.outPath != "" {
		if b, err := json.Marshal(&r.res); err == nil {
			os.WriteFile(r.outPath, b, 0o644)
		}
	}
	os.Exit(3)
}

// Finish writes the shard result.  Must be called at the end of TestCheck.
func (r *Run) Finish() {
	r.mu.Lock()
	defer r.mu.Unlock()
	for name, m := range r.distinct {
		r.res.DistinctN[name] = len(m)
		if len(m) <= distinctCap {
			l := make([]string, 0, len(m))
			for k := range m {
				l = append(l, hex.EncodeToString(k[:]))
			}
			sort.Strings(l)
			r.res.Distinct[name] = l
		}
	}
	// A case that is still open when Finish runs was left by runtime.Goexit:
	// synctest fails the outer T and ends it via FailNow as soon as the race
	// detector reported something inside a bubble.  The remaining cases of
	// this shard have not run, so it must not count as completed.
	r.res.Completed = r.inCase == ""
	if r.inCase != "" {
		r.res.Inconcl = append(r.res.Inconcl, "test ended from outside the monitors inside case "+r.inCase+" (e.g. race report inside a synctest bubble); the remaining cases of this shard did not run")
	}
	if r.caseLog != nil {
		fmt.Fprintf(r.caseLog, "#done\n")
		r.caseLog.Close()
	}
	if r.outPath != "" {
		b, err := json.Marshal(&r.res)
		if err != nil {
			r.T.Fatalf("marshal result: %v", err)
		}
		if err := os.WriteFile(r.outPath, b, 0o644); err != nil {
			r.T.Fatal(err)
		}
	} else {
		// interactive use: print a summary
		b, _ := json.MarshalIndent(map[string]any{"cases": r.res.Cases, "counters": r.res.Counters, "distinct": r.res.DistinctN,
			"max": r.res.Max, "min": r.res.Min, "violations": r.res.Violations, "inconclusive": r.res.Inconcl}, "", " ")
		r.T.Logf("%s", b)
		if len(r.res.Violations) > 0 {
			r.T.Fail()
		}
	}
}
