package mon

import (
	"crypto/sha256"
	"encoding/binary"
	"math/rand/v2"
)

// NewRand returns a deterministic generator for workload choices.
func NewRand(seed uint64) *rand.Rand {
	return rand.New(rand.NewPCG(seed, seed^0xda3e39cb94b95bdb))
}

// Stream is position-dependent content: byte i is a pseudo-random function of
// (Key, i), so loss, duplication, reordering and injection are all visible at
// the first wrong byte.
type Stream struct{ Key uint64 }

func (s Stream) block(i int64) [32]byte {
	var in [16]byte
	binary.BigEndian.PutUint64(in[:8], s.Key)
	binary.BigEndian.PutUint64(in[8:], uint64(i))
	return sha256.Sum256(in[:])
}

// Fill writes the bytes at offsets off..off+len(p)-1 into p.
func (s Stream) Fill(p []byte, off int64) {
	for len(p) > 0 {
		b := s.block(off / 32)
		n := copy(p, b[off%32:])
		p = p[n:]
		off += int64(n)
	}
}

// Bytes returns n stream bytes starting at off.
func (s Stream) Bytes(off int64, n int) []byte {
	p := make([]byte, n)
	s.Fill(p, off)
	return p
}

// Check returns the index in p of the first byte that is not the stream byte
// at off+index, or -1 if p matches.
func (s Stream) Check(p []byte, off int64) int {
	idx := 0
	for len(p) > 0 {
		b := s.block(off / 32)
		src := b[off%32:]
		n := len(src)
		if n > len(p) {
			n = len(p)
		}
		for i := 0; i < n; i++ {
			if p[i] != src[i] {
				return idx + i
			}
		}
		p = p[n:]
		off += int64(n)
		idx += n
	}
	return -1
}
