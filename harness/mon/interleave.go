package mon

import (
	"fmt"
	"net"
)

// Link is one established connection between two endpoints of the code under
// test (or one of them and a reference peer that behaves like a net.Conn).
type Link struct {
	Name string
	A, B net.Conn
}

// Interleave drives several connections that are alive at the same time in
// one process from a single goroutine, in a deterministic round-robin: every
// endpoint writes, then all endpoints read what is due to them in tiny pieces,
// one Read per endpoint per round, then a second wave of writes and a full
// drain.  Each direction of each link carries its own position-dependent
// stream, so whatever one connection keeps between calls (left-over receive
// buffers, scratch space, per-connection tables) must be its own: state shared
// between connections through the process (pools, package-level caches) shows
// as a foreign or stale byte.  The wires must be unbounded, so that a Write
// never waits for the peer's Read.  Violations are reported under sig+"/…".
func Interleave(c *Case, r *Run, sig string, links []Link, seed uint64) {
	type end struct {
		name      string
		conn      net.Conn
		out       Stream // what this end writes
		in        Stream // what this end must read (the peer's out)
		written   int64
		delivered int64
		peer      *end
		dead      bool
	}
	rng := NewRand(seed)
	var ends []*end
	for i, l := range links {
		a := &end{name: l.Name + "/A", conn: l.A, out: Stream{Key: seed ^ uint64(2*i+1)*0x9e3779b97f4a7c15}}
		b := &end{name: l.Name + "/B", conn: l.B, out: Stream{Key: seed ^ uint64(2*i+2)*0x9e3779b97f4a7c15}}
		a.in, b.in = b.out, a.out
		a.peer, b.peer = b, a
		ends = append(ends, a, b)
	}
	fail := func(e *end, what, detail string) {
		e.dead = true
		c.Violation(sig+"/"+what, fmt.Sprintf("%s: %s (%d connections alive, interleaved use)", e.name, detail, len(links)), map[string]any{"endpoint": e.name, "connections": len(links), "seed": fmt.Sprintf("%x", seed)})
	}
	write := func(e *end, n int) {
		if e.dead || e.peer.dead {
			return
		}
		m, err := e.conn.Write(e.out.Bytes(e.written, n))
		if err != nil || m != n {
			fail(e, "write-error", fmt.Sprintf("Write(%d) = %d, %v", n, m, err))
			return
		}
		e.written += int64(n)
	}
	read := func(e *end, max int) {
		due := e.peer.written - e.delivered
		if e.dead || e.peer.dead || due <= 0 {
			return
		}
		buf := make([]byte, max)
		n, err := e.conn.Read(buf)
		if n > 0 {
			if int64(n) > due {
				fail(e, "stream-excess", fmt.Sprintf("Read returned %d bytes, only %d were due", n, due))
				return
			}
			if i := e.in.Check(buf[:n], e.delivered); i >= 0 {
				fail(e, "stream-mismatch", fmt.Sprintf("byte at offset %d is not the byte its peer wrote there", e.delivered+int64(i)))
				return
			}
			e.delivered += int64(n)
		}
		if err != nil {
			fail(e, "read-error", fmt.Sprintf("Read failed on a healthy connection after %d of %d bytes: %v", e.delivered, e.peer.written, err))
		}
	}
	sizes := []int{1, 17, 100, 1500, 4000, 9000}
	for _, e := range ends {
		write(e, sizes[rng.IntN(len(sizes))]+rng.IntN(50))
	}
	for round := 0; round < 48; round++ {
		for _, e := range ends {
			read(e, 1+rng.IntN(24))
		}
	}
	for _, e := range ends {
		write(e, sizes[rng.IntN(len(sizes))]+rng.IntN(50))
	}
	for round := 0; round < 400; round++ {
		busy := false
		for _, e := range ends {
			if !e.dead && !e.peer.dead && e.peer.written > e.delivered {
				busy = true
				read(e, 1+rng.IntN(3000))
			}
		}
		if !busy {
			break
		}
	}
	ok := true
	for _, e := range ends {
		if e.dead || e.peer.dead {
			ok = false
			continue
		}
		if e.delivered != e.peer.written {
			ok = false
			fail(e, "stall", fmt.Sprintf("%d of %d bytes delivered", e.delivered, e.peer.written))
		}
		r.Count("interleaved_bytes_verified", e.delivered)
	}
	r.Count("evaluations", 1)
	r.Count("interleaved_connection_groups", 1)
	if ok {
		r.Count("interleaved_connection_groups_verified", 1)
	}
}
