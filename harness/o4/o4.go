// Package o4 holds the drivers shared by the obfs4 checks: bridge identities
// with known secrets, real endpoints obtained only through the public
// transports API, and reference endpoints (ref/obfs4) speaking over memwire.
package o4

import (
	"encoding/base64"
	"encoding/hex"
	"errors"
	"fmt"
	"io"
	"math/rand/v2"
	"net"
	"os"
	"strconv"
	"strings"
	"time"

	pt "gitlab.torproject.org/tpo/anti-censorship/pluggable-transports/goptlib"

	"gitlab.com/yawning/obfs4.git/transports"
	"gitlab.com/yawning/obfs4.git/transports/base"

	ref "verif/ref/obfs4"
)

func init() {
	if err := transports.Init(); err != nil {
		panic(err)
	}
}

// Bridge is a bridge identity whose secrets the harness knows.
type Bridge struct {
	Ref  ref.Bridge
	Seed [24]byte
	IAT  int
}

// RandReader adapts a math/rand/v2 generator to io.Reader.
type RandReader struct{ R *rand.Rand }

func (r RandReader) Read(p []byte) (int, error) {
	for i := range p {
		p[i] = byte(r.R.Uint32())
	}
	return len(p), nil
}

// NewBridge draws an identity from rng.
func NewBridge(rng *rand.Rand, iat int) Bridge {
	var b Bridge
	rr := RandReader{rng}
	io.ReadFull(rr, b.Ref.NodeID[:])
	io.ReadFull(rr, b.Ref.Priv[:])
	io.ReadFull(rr, b.Seed[:])
	b.Ref.Pub = ref.X25519Base(b.Ref.Priv)
	b.IAT = iat
	return b
}

// ServerArgs are the arguments that make a server factory adopt this identity.
func (b Bridge) ServerArgs() *pt.Args {
	a := pt.Args{}
	a.Add("node-id", hex.EncodeToString(b.Ref.NodeID[:]))
	a.Add("private-key", hex.EncodeToString(b.Ref.Priv[:]))
	a.Add("drbg-seed", hex.EncodeToString(b.Seed[:]))
	a.Add("iat-mode", strconv.Itoa(b.IAT))
	return &a
}

// Cert is the cert= string computed by the harness (unpadded base64 of
// NODEID | B).
func (b Bridge) Cert() string {
	raw := append(append([]byte{}, b.Ref.NodeID[:]...), b.Ref.Pub[:]...)
	return strings.TrimRight(base64.StdEncoding.EncodeToString(raw), "=")
}

// ClientArgsCert / ClientArgsLegacy are the two bridge-line forms.
func (b Bridge) ClientArgsCert() *pt.Args {
	a := pt.Args{}
	a.Add("cert", b.Cert())
	a.Add("iat-mode", strconv.Itoa(b.IAT))
	return &a
}
func (b Bridge) ClientArgsLegacy() *pt.Args {
	a := pt.Args{}
	a.Add("node-id", hex.EncodeToString(b.Ref.NodeID[:]))
	a.Add("public-key", hex.EncodeToString(b.Ref.Pub[:]))
	a.Add("iat-mode", strconv.Itoa(b.IAT))
	return &a
}

// StateDir returns a per-process scratch directory below VERIF_WORK (or the
// system temp dir when run by hand).
func StateDir(tag string) string {
	root := os.Getenv("VERIF_WORK")
	if root == "" {
		root = os.TempDir()
	}
	d, err := os.MkdirTemp(root, "state-"+tag+"-")
	if err != nil {
		panic(err)
	}
	return d
}

// ServerFactory builds a real obfs4 server factory for the identity.
func ServerFactory(dir string, b Bridge) (base.ServerFactory, error) {
	t := transports.Get("obfs4")
	if t == nil {
		return nil, errors.New("obfs4 transport not registered")
	}
	return t.ServerFactory(dir, b.ServerArgs())
}

// DialReal runs the real client (ParseArgs once, then one Dial) over conn.
func DialReal(conn net.Conn, args *pt.Args) (net.Conn, error) {
	t := transports.Get("obfs4")
	cf, err := t.ClientFactory("")
	if err != nil {
		return nil, err
	}
	pa, err := cf.ParseArgs(args)
	if err != nil {
		return nil, fmt.Errorf("ParseArgs: %w", err)
	}
	return cf.Dial("tcp", "192.0.2.2:443", func(string, string) (net.Conn, error) { return conn, nil }, pa)
}

// ---------------------------------------------------------------- reference endpoints

// RefConn is an established reference endpoint.
type RefConn struct {
	Conn net.Conn
	Enc  *ref.Encoder
	Dec  *ref.Decoder
	Sess *ref.Session
	// Pre holds bytes that arrived behind the peer's handshake message.
	Pre []byte
}

// Hours returns the decimal epoch hour of now()+off hours (virtual clock in a bubble).
func Hours(off int64) string { return ref.EpochHour(time.Now().Unix() + off*3600) }

// RefDial performs the client handshake with the reference implementation.
// padLen < 0 draws it from rng within the deployed range.
func RefDial(conn net.Conn, br ref.Bridge, rng *rand.Rand, padLen int, hour string) (*RefConn, *ref.ClientHello, *ref.ServerResponse, error) {
	rr := RandReader{rng}
	key := ref.NewKeypair(rr)
	if padLen < 0 {
		padLen = ref.ClientMinPad + rng.IntN(ref.ClientMaxPad-ref.ClientMinPad+1)
	}
	pad := make([]byte, padLen)
	io.ReadFull(rr, pad)
	h := ref.BuildClientHello(br, key, pad, hour)
	if _, err := conn.Write(h.Bytes); err != nil {
		return nil, h, nil, err
	}
	var resp []byte
	buf := make([]byte, 8192)
	for {
		n, err := conn.Read(buf)
		resp = append(resp, buf[:n]...)
		if n > 0 {
			sr, sess, perr := h.ParseServerResponse(resp)
			if perr == nil {
				rc := &RefConn{Conn: conn, Enc: ref.NewEncoder(sess.C2S), Dec: ref.NewDecoder(sess.S2C), Sess: sess, Pre: append([]byte(nil), resp[sr.Len:]...)}
				return rc, h, sr, nil
			}
			if perr != ref.ErrNeedMore {
				return nil, h, sr, perr
			}
		}
		if err != nil {
			return nil, h, nil, err
		}
	}
}

// RefAccept performs the server handshake with the reference implementation:
// reads until a complete valid client hello is present, answers with the
// response and the unpadded seed frame in one write.
func RefAccept(conn net.Conn, b Bridge, rng *rand.Rand, padLen int) (*RefConn, *ref.ParsedHello, []byte, error) {
	return refAccept(conn, b, rng, padLen, nil)
}

// RefAcceptForged is RefAccept by a peer that knows only the public bridge
// line: it uses e2 in place of EXP(X,b) (b.Ref.Priv is not used).
func RefAcceptForged(conn net.Conn, b Bridge, rng *rand.Rand, padLen int, e2 [32]byte) (*RefConn, *ref.ParsedHello, []byte, error) {
	return refAccept(conn, b, rng, padLen, &e2)
}

func refAccept(conn net.Conn, b Bridge, rng *rand.Rand, padLen int, forgedE2 *[32]byte) (*RefConn, *ref.ParsedHello, []byte, error) {
	rr := RandReader{rng}
	var blob []byte
	buf := make([]byte, 8192)
	hours := []string{Hours(0), Hours(-1), Hours(1)}
	var ph *ref.ParsedHello
	for {
		n, err := conn.Read(buf)
		blob = append(blob, buf[:n]...)
		if n > 0 {
			var perr error
			if ph, perr = ref.ParseClientHello(b.Ref, blob, hours); perr == nil {
				break
			}
			if len(blob) >= ref.MaxHandshakeLength {
				return nil, nil, blob, perr
			}
		}
		if err != nil {
			return nil, nil, blob, err
		}
	}
	key := ref.NewKeypair(rr)
	if padLen < 0 {
		padLen = rng.IntN(ref.ServerMaxPad + 1)
	}
	pad := make([]byte, padLen)
	io.ReadFull(rr, pad)
	var resp []byte
	var sess *ref.Session
	if forgedE2 != nil {
		resp, sess = ref.BuildServerResponseForged(b.Ref, key, ph.Repr, pad, ph.Hour, *forgedE2)
	} else {
		var err error
		if resp, sess, err = ref.BuildServerResponse(b.Ref, key, ph.Repr, pad, ph.Hour); err != nil {
			return nil, ph, blob, err
		}
	}
	rc := &RefConn{Conn: conn, Enc: ref.NewEncoder(sess.S2C), Dec: ref.NewDecoder(sess.C2S), Sess: sess}
	out := append(resp, rc.Enc.Frame(ref.Packet(ref.PacketPrngSeed, b.Seed[:], 0))...)
	if _, err := conn.Write(out); err != nil {
		return nil, ph, blob, err
	}
	return rc, ph, blob, nil
}

// WriteData sends data as payload frames of at most maxData bytes each (0 =
// 1427), each followed by padLen bytes of zero padding inside the packet,
// all in one write.
func (c *RefConn) WriteData(data []byte, maxData, padLen int) error {
	if maxData <= 0 || maxData > ref.MaxPacketData {
		maxData = ref.MaxPacketData
	}
	var out []byte
	for len(data) > 0 {
		n := len(data)
		if n > maxData {
			n = maxData
		}
		pl := padLen
		if n+pl > ref.MaxPacketData {
			pl = ref.MaxPacketData - n
		}
		out = append(out, c.Enc.DataFrame(data[:n], pl)...)
		data = data[n:]
	}
	_, err := c.Conn.Write(out)
	return err
}

// ReadPackets blocks for one network read and returns the packets completed
// by it (possibly none).  Bytes in Pre are consumed first without reading.
func (c *RefConn) ReadPackets() ([]ref.DecodedPacket, error) {
	if len(c.Pre) > 0 {
		p := c.Pre
		c.Pre = nil
		return c.Dec.Feed(p)
	}
	buf := make([]byte, 32768)
	n, err := c.Conn.Read(buf)
	var pk []ref.DecodedPacket
	if n > 0 {
		var derr error
		pk, derr = c.Dec.Feed(buf[:n])
		if derr != nil {
			return pk, derr
		}
	}
	return pk, err
}
