package o4

import (
	"bytes"
	"io"
	"testing"
	"testing/synctest"

	pt "gitlab.torproject.org/tpo/anti-censorship/pluggable-transports/goptlib"

	"verif/memwire"
	"verif/mon"
	ref "verif/ref/obfs4"
)

func TestSipHashVector(t *testing.T) {
	var key [16]byte
	for i := range key {
		key[i] = byte(i)
	}
	msg := make([]byte, 15)
	for i := range msg {
		msg[i] = byte(i)
	}
	if got := ref.SipHash24(key, msg); got != 0xa129ca6149be45e5 {
		t.Fatalf("siphash %x", got)
	}
}

func TestEll2RoundTrip(t *testing.T) {
	rng := mon.NewRand(1)
	n := 0
	for i := 0; i < 200; i++ {
		var priv [32]byte
		io.ReadFull(RandReader{rng}, priv[:])
		pub := ref.X25519Base(priv)
		for _, alt := range []bool{false, true} {
			r, ok := ref.Ell2Encode(pub, alt)
			if !ok {
				continue
			}
			n++
			if got := ref.Ell2Decode(r); got != pub {
				t.Fatalf("decode(encode(pub)) != pub (alt=%v)", alt)
			}
		}
	}
	if n < 100 {
		t.Fatalf("only %d representable", n)
	}
}

// real client <-> ref server, ref client <-> real server
func TestInterop(t *testing.T) {
	synctest.Test(t, func(t *testing.T) {
		rng := mon.NewRand(7)
		b := NewBridge(rng, 0)
		dir := t.TempDir()
		sf, err := ServerFactory(dir, b)
		if err != nil {
			t.Fatal(err)
		}
		if c, _ := sf.Args().Get("cert"); c != b.Cert() {
			t.Fatalf("cert %q vs %q", c, b.Cert())
		}
		// ref client -> real server
		{
			cw, sw := memwire.Pair(memwire.Options{})
			done := make(chan error, 1)
			go func() {
				sc, err := sf.WrapConn(sw)
				if err != nil {
					done <- err
					return
				}
				buf := make([]byte, 5)
				if _, err := io.ReadFull(sc, buf); err != nil {
					done <- err
					return
				}
				_, err = sc.Write(bytes.ToUpper(buf))
				done <- err
			}()
			rc, _, sr, err := RefDial(cw, b.Ref, rng, -1, Hours(0))
			if err != nil {
				t.Fatalf("ref dial: %v", err)
			}
			t.Logf("server pad %d, pre %d", sr.PadLen, len(rc.Pre))
			if err := rc.WriteData([]byte("hello"), 0, 7); err != nil {
				t.Fatal(err)
			}
			var got []byte
			seed := false
			for len(got) < 5 {
				pk, err := rc.ReadPackets()
				if err != nil {
					t.Fatal(err)
				}
				for _, p := range pk {
					if p.Type == ref.PacketPrngSeed {
						seed = bytes.Equal(p.Data, b.Seed[:]) && p.FrameLen == 45
					}
					if p.Type == ref.PacketPayload {
						got = append(got, p.Data...)
					}
					if !p.PadAllZero {
						t.Fatal("nonzero padding")
					}
				}
			}
			if string(got) != "HELLO" || !seed {
				t.Fatalf("got %q seed=%v", got, seed)
			}
			if err := <-done; err != nil {
				t.Fatal(err)
			}
			cw.Close()
			sw.Close()
		}
		// real client -> ref server
		for _, args := range []*pt.Args{b.ClientArgsCert(), b.ClientArgsLegacy()} {
			cw, sw := memwire.Pair(memwire.Options{})
			done := make(chan error, 1)
			go func() {
				rc, ph, _, err := RefAccept(sw, b, rng, -1)
				if err != nil {
					done <- err
					return
				}
				_ = ph
				var got []byte
				for len(got) < 5 {
					pk, err := rc.ReadPackets()
					if err != nil {
						done <- err
						return
					}
					for _, p := range pk {
						got = append(got, p.Data...)
					}
				}
				done <- rc.WriteData(bytes.ToUpper(got), 2, 3)
			}()
			cc, err := DialReal(cw, args)
			if err != nil {
				t.Fatalf("real dial: %v", err)
			}
			if _, err := cc.Write([]byte("hello")); err != nil {
				t.Fatal(err)
			}
			buf := make([]byte, 5)
			if _, err := io.ReadFull(cc, buf); err != nil {
				t.Fatal(err)
			}
			if string(buf) != "HELLO" {
				t.Fatalf("got %q", buf)
			}
			if err := <-done; err != nil {
				t.Fatal(err)
			}
			cw.Close()
			sw.Close()
		}
	})
}
