package o4

import (
	"net"
	"time"

	"gitlab.com/yawning/obfs4.git/transports/base"

	"verif/memwire"
	"verif/mon"
)

// ProbeScript is what an unauthenticated (or authenticated) peer sends.
type ProbeScript struct {
	Segments [][]byte        // written one after the other
	Gaps     []time.Duration // virtual pause before each segment (missing = 0)
	// Garbage > 0: after the segments keep writing Garbage bytes every
	// second (at +500ms offsets) until the write fails.
	Garbage int
	// CloseAfter >= 0: the probe closes its end that long after its last
	// segment; < 0: it never closes first.
	CloseAfter time.Duration
	// ValidPrefix > 0: the first ValidPrefix bytes of the script are a
	// complete valid hello (metadata for the monitor).
	ValidPrefix int
	Policy      memwire.ChunkPolicy // how the server's reads are chunked (nil = all)
	Window      int                 // bounded window on the probe->server direction
}

// ProbeResult is what the monitor observed at the server's boundary.
type ProbeResult struct {
	ServerBytes   int64 // bytes the server put on the wire
	ServerData    []byte
	Accepted      bool
	WrapErr       error
	ReturnAt      time.Duration // when WrapConn returned, relative to accept
	ServerClosed  bool
	ClosedAt      time.Duration // when the server closed the connection, relative to accept
	Sent          int64         // bytes the probe managed to write
	Consumed      int64         // bytes the server read
	SentAtClose   int64
	ProbeWriteErr error
	Conn          net.Conn      // the established server-side connection, if accepted
	Client        *memwire.Conn // the probe's end (still open if accepted)
	Server        *memwire.Conn
}

// RunProbe accepts one connection on sf, plays the script against it and
// returns when WrapConn has returned and the probe is finished.  Must be
// called inside a bubble.  If the handshake is accepted both ends stay open
// and are returned for further use; otherwise they are closed.
func RunProbe(c *mon.Case, sf base.ServerFactory, ps ProbeScript) *ProbeResult {
	res := &ProbeResult{}
	cw, sw := memwire.Pair(memwire.Options{Keep: true})
	res.Client, res.Server = cw, sw
	c2s, s2c := cw.Out(), sw.Out()
	if ps.Policy != nil {
		c2s.SetPolicy(ps.Policy)
	}
	if ps.Window > 0 {
		c2s.SetWindow(ps.Window)
	}
	start := time.Now()
	srvDone := make(chan struct{})
	c.Go(func() { close(srvDone) }, func() {
		conn, err := sf.WrapConn(sw)
		res.ReturnAt = time.Since(start)
		res.WrapErr = err
		res.Accepted = err == nil
		res.Conn = conn
	})
	probeDone := make(chan struct{})
	c.Go(func() { close(probeDone) }, func() {
		for i, seg := range ps.Segments {
			if i < len(ps.Gaps) && ps.Gaps[i] > 0 {
				time.Sleep(ps.Gaps[i])
			}
			if _, err := cw.Write(seg); err != nil {
				res.ProbeWriteErr = err
				return
			}
		}
		if ps.Garbage > 0 {
			// align to +500ms so that writes never coincide with the
			// server's whole-second deadline
			el := time.Since(start)
			time.Sleep(time.Second - el%time.Second + 500*time.Millisecond)
			junk := make([]byte, ps.Garbage)
			for i := range junk {
				junk[i] = byte(i*7 + 3)
			}
			for k := 0; k < 200; k++ {
				if _, err := cw.Write(junk); err != nil {
					res.ProbeWriteErr = err
					return
				}
				select {
				case <-srvDone:
					if !res.Accepted {
						return
					}
				default:
				}
				time.Sleep(time.Second)
			}
		}
		if ps.CloseAfter >= 0 {
			time.Sleep(ps.CloseAfter)
			cw.Close()
		}
	})
	<-srvDone
	<-probeDone
	res.ServerBytes = s2c.Written()
	_, _, res.ServerData = s2c.Snapshot()
	res.ServerClosed, res.ClosedAt = sw.Closed()
	res.Sent = c2s.Written()
	res.Consumed = c2s.Delivered()
	if !res.Accepted {
		cw.Close()
		sw.Close()
	}
	return res
}
