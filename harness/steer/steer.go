// Package steer replaces crypto/rand.Reader (which csrand reads on every
// call) with a seeded, recording source whose n-th draw can be scripted, so
// single-goroutine cases are replayable and workloads can hit the extremes of
// internal random choices on purpose.
package steer

import (
	"crypto/rand"
	"crypto/sha256"
	"encoding/binary"
	"io"
	"sync"
)

// Source is a deterministic io.Reader.
type Source struct {
	mu    sync.Mutex
	key   [32]byte
	ctr   uint64
	buf   []byte
	Draws int64 // number of Read calls
	Bytes int64
	// Hook, if set, may overwrite the bytes of draw number n (0-based) of
	// length len(p) after they were generated.
	Hook func(n int64, p []byte)
}

// New returns a source seeded with seed.
func New(seed uint64) *Source {
	s := &Source{}
	binary.BigEndian.PutUint64(s.key[:], seed)
	s.key = sha256.Sum256(s.key[:])
	return s
}

func (s *Source) Read(p []byte) (int, error) {
	s.mu.Lock()
	defer s.mu.Unlock()
	for i := 0; i < len(p); {
		if len(s.buf) == 0 {
			var in [40]byte
			copy(in[:], s.key[:])
			binary.BigEndian.PutUint64(in[32:], s.ctr)
			s.ctr++
			b := sha256.Sum256(in[:])
			s.buf = b[:]
		}
		n := copy(p[i:], s.buf)
		s.buf = s.buf[n:]
		i += n
	}
	if s.Hook != nil {
		s.Hook(s.Draws, p)
	}
	s.Draws++
	s.Bytes += int64(len(p))
	return len(p), nil
}

var saved io.Reader

// Install makes src the process-wide crypto/rand.Reader and returns a
// function restoring the previous one.  Not for use while other goroutines of
// an unrelated case are running.
func Install(src io.Reader) (restore func()) {
	old := rand.Reader
	rand.Reader = src
	return func() { rand.Reader = old }
}
