#!/bin/sh
# Generates package-main copies of memwire and mon into $WORK so that the C19
# monitor can be compiled *into* /repo/obfs4proxy with `go test -overlay`
# (package main cannot be imported; nothing is written to /repo).
set -e
here=$(dirname "$0")/..
sed -e 's/^package memwire$/package main/' "$here/memwire/memwire.go" > "$WORK/memwire_verif_test.go"
sed -e 's/^package mon$/package main/' "$here/mon/mon.go" > "$WORK/mon_verif_test.go"
sed -e 's/^package mon$/package main/' "$here/mon/stream.go" > "$WORK/monstream_verif_test.go"
sed -e 's/^package mon$/package main/' "$here/mon/interleave.go" > "$WORK/moninterleave_verif_test.go"
sed -e 's/^package mon$/package main/' "$here/mon/parallel.go" > "$WORK/monparallel_verif_test.go"
