//go:build verif

// C19 — relay copies everything, tears both sides down together, and shutdown
// completes.  This file lives in /verif and is compiled into package main of
// /repo/obfs4proxy with `go test -overlay` (together with package-main copies
// of memwire and mon); nothing is written to /repo.
package main

import (
	"context"
	"errors"
	"fmt"
	"io"
	"net"
	"net/url"
	"os"
	"os/signal"
	"strings"
	"sync"
	"sync/atomic"
	"syscall"
	"testing"
	"testing/synctest"
	"time"

	pt "gitlab.torproject.org/tpo/anti-censorship/pluggable-transports/goptlib"

	"gitlab.com/yawning/obfs4.git/transports/base"
)

// ---------------------------------------------------------------- relay

type relayEv struct {
	kind string // Aw Bw Aeof Beof Arst Brst Awerr Bwerr
	n    int
}

func (e relayEv) String() string {
	if e.n > 0 {
		return fmt.Sprintf("%s%d", e.kind, e.n)
	}
	return e.kind
}

type side struct {
	name     string
	relay    *Conn // the relay's end
	app      *Conn // the far end (client application / remote peer)
	st       Stream
	written  int64 // bytes the app wrote towards the relay
	gotOther int64 // bytes the app received (forwarded from the other side)
	mismatch int64
	readErr  error
	ended    string // "", "eof", "rst"
	werr     bool
	cutAt    int64
	q        chan []byte // application writes, performed in order by one goroutine
}

// endErrors are the error values with which a side's Read (events Arst/Brst)
// or the relay's Write towards it (Awerr/Bwerr) fails.  The property says
// "EOF or error": which error it is, and whether it happens to be one of the
// standard library's sentinel values, must not matter.  Kind 0 is the plain
// connection reset wrapped in a *net.OpError.
var endErrors = []struct {
	name string
	err  error
}{
	{"econnreset", nil},
	{"io.ErrClosedPipe", io.ErrClosedPipe},
	{"OpError(net.ErrClosed)", &net.OpError{Op: "read", Net: "tcp", Err: net.ErrClosed}},
	{"wrapped(io.ErrClosedPipe)", fmt.Errorf("transport: %w", io.ErrClosedPipe)},
	{"net.ErrClosed", net.ErrClosed},
	{"io.ErrUnexpectedEOF", io.ErrUnexpectedEOF},
	{"OpError(os.ErrDeadlineExceeded)", &net.OpError{Op: "read", Net: "tcp", Err: os.ErrDeadlineExceeded}},
	{"context.Canceled", context.Canceled},
	{"plain", errors.New("transport: frame decoding failed")},
	{"io.ErrNoProgress", io.ErrNoProgress},
	{"syscall.EPIPE", syscall.EPIPE},
	{"wrapped(io.EOF)", fmt.Errorf("transport: %w", io.EOF)},
}

func runRelay(c *Case, r *Run, script []relayEv, gapMode int, window int, chunk int, seed uint64, errKind int) {
	rng := NewRand(seed)
	endErr := endErrors[errKind%len(endErrors)]
	r.Count("relay_end_error_kind_"+endErr.name, 1)
	a1, a2 := Pair(Options{}) // a1 = relay end, a2 = client application
	b1, b2 := Pair(Options{}) // b1 = relay end, b2 = remote peer
	A := &side{name: "a", relay: a1, app: a2, st: Stream{Key: seed ^ 0xa}, mismatch: -1, cutAt: -1}
	B := &side{name: "b", relay: b1, app: b2, st: Stream{Key: seed ^ 0xb}, mismatch: -1, cutAt: -1}
	pol := func() ChunkPolicy {
		switch chunk {
		case 1:
			return Fixed(1)
		case 2:
			return PRNG(seed, 5000)
		}
		return All()
	}
	// chunking of what the relay reads, bounded window towards the sinks
	a2.Out().SetPolicy(pol())
	b2.Out().SetPolicy(pol())
	if window == 4096 || chunk == 2 {
		// the read that delivers a side's last bytes also reports its end
		// (n > 0 together with EOF / reset), as obfs4's Read does by design
		a2.Out().SetErrWithData(true)
		b2.Out().SetErrWithData(true)
		r.Count("relay_end_reported_with_last_data", 1)
	}
	if window > 0 {
		a1.Out().SetWindow(window)
		b1.Out().SetWindow(window)
	}
	// Close of one of the relay's ends reports an error although it closes
	// (which end rotates with the error kind)
	switch errKind % 4 {
	case 1:
		b1.SetCloseErr(errors.New("close: failed to send the closing alert: broken pipe"))
		r.Count("relay_close_reports_an_error", 1)
	case 3:
		a1.SetCloseErr(errors.New("close: failed to send the closing alert: broken pipe"))
		r.Count("relay_close_reports_an_error", 1)
	}
	var mu sync.Mutex
	var wg sync.WaitGroup
	// far-end readers drain continuously and check the forwarded stream
	reader := func(me, other *side) {
		buf := make([]byte, 8192)
		for {
			n, err := me.app.Read(buf)
			mu.Lock()
			if n > 0 {
				if i := other.st.Check(buf[:n], me.gotOther); i >= 0 && me.mismatch < 0 {
					me.mismatch = me.gotOther + int64(i)
				}
				me.gotOther += int64(n)
			}
			if err != nil {
				me.readErr = err
			}
			mu.Unlock()
			if err != nil {
				return
			}
		}
	}
	wg.Add(2)
	c.Go(wg.Done, func() { reader(A, B) })
	c.Go(wg.Done, func() { reader(B, A) })
	// one writer goroutine per application (the relay may apply back-pressure)
	for _, s := range []*side{A, B} {
		s := s
		s.q = make(chan []byte, 64)
		wg.Add(1)
		c.Go(wg.Done, func() {
			for data := range s.q {
				if _, err := s.app.Write(data); err != nil {
					for range s.q {
					}
					return
				}
			}
		})
	}

	returned := make(chan struct{})
	var relayErr error
	// what the relay is handed is a bare net.Conn or, like a *net.TCPConn,
	// one that can also be half-closed
	var ra, rb net.Conn = a1, b1
	switch seed % 3 {
	case 0:
		ra = halfClosable{a1}
		r.Count("relay_side_with_CloseWrite", 1)
	case 1:
		rb = halfClosable{b1}
		r.Count("relay_side_with_CloseWrite", 1)
	}
	c.Go(func() { close(returned) }, func() { relayErr = copyLoop(ra, rb) })

	firstEnd := ""       // which side ended first
	otherHealthy := true // was the other side healthy at that moment
	anyEnd := false
	var trace []string
	for _, ev := range script {
		switch gapMode {
		case 0:
			time.Sleep(time.Millisecond)
		case 1:
			time.Sleep(time.Duration(rng.IntN(3)) * time.Millisecond)
		}
		s, o := A, B
		if ev.kind[0] == 'B' {
			s, o = B, A
		}
		trace = append(trace, ev.String())
		switch ev.kind[1:] {
		case "w":
			if s.ended != "" {
				continue
			}
			s.q <- s.st.Bytes(s.written, ev.n)
			s.written += int64(ev.n)
			if o.werr {
				if !anyEnd {
					anyEnd, firstEnd, otherHealthy = true, o.name+"-werr", s.ended == ""
				}
			}
		case "eof":
			if s.ended != "" {
				continue
			}
			synctest.Wait() // earlier bytes of this side are on the wire before its EOF
			s.ended = "eof"
			// a last burst immediately followed by the EOF
			tail := rng.IntN(3000)
			s.app.Out().Pause(true)
			if tail > 0 {
				s.q <- s.st.Bytes(s.written, tail)
				s.written += int64(tail)
				synctest.Wait()
			}
			s.app.Out().CloseWrite()
			s.app.Out().Pause(false)
			synctest.Wait() // the relay deals with this end before the next event
			if !anyEnd {
				anyEnd, firstEnd, otherHealthy = true, s.name+"-eof", o.ended == "" && !o.werr
			}
		case "rst":
			if s.ended != "" {
				continue
			}
			synctest.Wait()
			s.ended = "rst"
			// a last burst that reaches the relay and is then followed by the reset
			tail := 1 + rng.IntN(3000)
			s.app.Out().Pause(true)
			s.q <- s.st.Bytes(s.written, tail)
			s.written += int64(tail)
			synctest.Wait()
			s.cutAt = s.written
			if endErr.err != nil {
				s.app.Out().SetCutErr(s.cutAt, endErr.err)
			} else {
				s.app.Out().SetCut(s.cutAt, CutRST)
			}
			s.app.Out().Pause(false)
			synctest.Wait() // the relay deals with this end before the next event
			if !anyEnd {
				anyEnd, firstEnd, otherHealthy = true, s.name+"-rst", o.ended == "" && !o.werr
			}
		case "rstw", "both":
			// "rstw": the connection of this side is reset as a whole — the
			// relay's Read from it and its Write towards it fail in the same
			// instant.  "both": the two connections are reset in the same
			// instant.  Either way both copy directions can end with an error of
			// their own (not with the echo of the other one's Close), which one
			// side ending alone never produces.
			ends := []*side{s}
			if ev.kind[1:] == "both" {
				ends = []*side{s, o}
			}
			skip := false
			for _, e := range ends {
				if e.ended != "" {
					skip = true
				}
			}
			if skip {
				continue
			}
			synctest.Wait()
			var fs []Failure
			for _, e := range ends {
				e.ended = "rst"
				e.cutAt = e.written
				fs = append(fs, Failure{H: e.app.Out(), Cut: true, At: e.cutAt, Err: endErr.err}, Failure{H: e.relay.Out(), Err: endErr.err})
			}
			FailTogether(fs...)
			r.Count("relay_resets_of_both_directions_at_once", 1)
			synctest.Wait()
			if !anyEnd {
				anyEnd, firstEnd, otherHealthy = true, s.name+"-"+ev.kind[1:], false
			}
		case "selfclose":
			// the transport behind this end tears itself down (as meek_lite's worker
			// does when it gives up): its own Close has run when the relay's Read
			// on it fails, so the relay's Close of it reports an error
			if s.ended != "" {
				continue
			}
			synctest.Wait()
			s.ended = "rst"
			s.relay.Close()
			r.Count("relay_side_closed_itself", 1)
			synctest.Wait()
			if !anyEnd {
				anyEnd, firstEnd, otherHealthy = true, s.name+"-selfclose", false
			}
		case "stall":
			// this side's application stops reading: with a bounded window the
			// relay's writes towards it block
			s.relay.Out().SetWindow(4096)
			s.relay.Out().Pause(true)
			r.Count("relay_stalled_sink_scripts", 1)
		case "werr":
			if s.werr || s.ended != "" {
				continue
			}
			synctest.Wait()
			s.werr = true
			if endErr.err != nil {
				s.relay.Out().SetWriteFaultRaw(s.relay.Out().Written(), endErr.err)
			} else {
				s.relay.Out().SetWriteFault(s.relay.Out().Written(), syscall.EPIPE)
			}
		}
	}
	synctest.Wait()

	// ---- judge at quiescence (every goroutine is durably blocked)
	mu.Lock()
	aSnap, bSnap := *A, *B
	mu.Unlock()
	A, B = &aSnap, &bSnap
	r.Count("evaluations", 1)
	r.Count("relay_scripts", 1)
	wit := map[string]any{"script": strings.Join(trace, " "), "gap_mode": gapMode, "window": window, "chunk": chunk, "end_error": endErr.name}
	sigOf := func(s string) string { return s + "/" + classify(script) }
	for _, pr := range [][2]*side{{A, B}, {B, A}} {
		me, other := pr[0], pr[1]
		if me.mismatch >= 0 {
			c.Violation(sigOf("relay/altered-or-reordered/to-"+me.name), fmt.Sprintf("byte %d forwarded to side %s is not byte %d of what side %s produced", me.mismatch, me.name, me.mismatch, other.name), wit)
		}
		if me.gotOther > other.written {
			c.Violation(sigOf("relay/more-than-produced/to-"+me.name), fmt.Sprintf("%d bytes forwarded, %d produced", me.gotOther, other.written), wit)
		}
		r.Count("relay_bytes_forwarded", me.gotOther)
	}
	isReturned := false
	select {
	case <-returned:
		isReturned = true
	default:
	}
	ac, _ := a1.Closed()
	bc, _ := b1.Closed()
	if anyEnd {
		r.Count("relay_teardowns_observed", 1)
		if !isReturned {
			c.Violation(sigOf("relay/not-returned-after-"+firstEnd), fmt.Sprintf("a side ended (%s) but copyLoop has not returned at quiescence (a closed=%v, b closed=%v)", firstEnd, ac, bc), wit)
		}
		if !ac || !bc {
			c.Violation(sigOf("relay/not-both-closed-after-"+firstEnd), fmt.Sprintf("a side ended (%s): a closed=%v, b closed=%v", firstEnd, ac, bc), wit)
		}
		// a side that ended by EOF/reset while the other was healthy has had all
		// the bytes the relay received from it forwarded first
		if otherHealthy && (strings.HasSuffix(firstEnd, "-eof") || strings.HasSuffix(firstEnd, "-rst")) && !stalledSink(script, firstEnd) {
			s, o := A, B
			if firstEnd[0] == 'b' {
				s, o = B, A
			}
			produced := s.written
			if s.cutAt >= 0 && s.cutAt < produced {
				produced = s.cutAt
			}
			if o.gotOther != produced {
				_, rr, _ := s.app.Out().Snapshot()
				var tailEv []string
				for _, e := range rr[tailFrom(len(rr)):] {
					tailEv = append(tailEv, fmt.Sprintf("%d/%s", e.N, e.Err))
				}
				ww, _, _ := o.relay.Out().Snapshot()
				var wEv []string
				for _, e := range ww[tailFrom(len(ww)):] {
					wEv = append(wEv, fmt.Sprint(e.N))
				}
				wit["relay_reads_from_ended_side"] = tailEv
				wit["relay_writes_to_other_side"] = wEv
				wit["other_read_err"] = fmt.Sprint(o.readErr)
				c.Violation(sigOf("relay/earlier-bytes-not-forwarded/"+firstEnd), fmt.Sprintf("side %s ended (%s) after producing %d bytes while side %s was healthy, but only %d were forwarded before the teardown", s.name, firstEnd, produced, o.name, o.gotOther), wit)
			} else {
				r.Count("relay_all_earlier_bytes_forwarded", 1)
			}
		}
	} else {
		// control: nothing ended — everything forwarded, relay still running, conns open
		if isReturned || ac || bc {
			c.Violation(sigOf("relay/teardown-without-cause"), fmt.Sprintf("no side ended but returned=%v a closed=%v b closed=%v (err %v)", isReturned, ac, bc, relayErr), wit)
		}
		if A.gotOther != B.written || B.gotOther != A.written {
			c.Violation(sigOf("relay/stalled"), fmt.Sprintf("idle and healthy but forwarded a->b %d of %d, b->a %d of %d", B.gotOther, A.written, A.gotOther, B.written), wit)
		} else {
			r.Count("control_relay_idle_stays_open", 1)
		}
	}
	r.Distinct("nontrivial", fmt.Sprintf("relay/%s/%d/%d/%d/%d", strings.Join(trace, " "), gapMode, window, chunk, errKind%len(endErrors)))
	r.Distinct("relay_orders", strings.Join(kinds(script), " "))
	// clean up so that the bubble can end
	close(A.q)
	close(B.q)
	a1.Close()
	b1.Close()
	a2.Close()
	b2.Close()
	<-returned
	wg.Wait()
}

// halfClosable gives a wire end the two extra methods of a *net.TCPConn.
type halfClosable struct{ *Conn }

func (h halfClosable) CloseWrite() error { h.Conn.Out().CloseWrite(); return nil }
func (h halfClosable) CloseRead() error  { return nil }

// stalledSink reports whether the side that would have to receive the bytes
// of the side that ended (the other side) had stopped reading.
func stalledSink(script []relayEv, firstEnd string) bool {
	other := "B"
	if firstEnd[0] == 'b' {
		other = "A"
	}
	for _, e := range script {
		if e.kind == other+"stall" {
			return true
		}
	}
	return false
}

func tailFrom(n int) int {
	if n > 6 {
		return n - 6
	}
	return 0
}

func kinds(s []relayEv) []string {
	var k []string
	for _, e := range s {
		k = append(k, e.kind)
	}
	return k
}

// classify gives a short stable class of a script for violation signatures.
func classify(s []relayEv) string {
	stalled := ""
	for _, e := range s {
		if e.kind[1:] == "stall" {
			stalled = "stalled-sink/"
			continue
		}
		if e.kind[1:] != "w" {
			return stalled + "first-end-" + e.kind
		}
	}
	return stalled + "data-only"
}

// ---------------------------------------------------------------- termination monitor

// tmEvent: 'S' handler start, 'F' handler finish, 'I' SIGINT, 'T' SIGTERM.
// A history is a list of groups; the events of one group are released at the
// same virtual instant (concurrent senders).
func runTermMon(c *Case, r *Run, groups []string, window time.Duration) {
	// The monitor is built by the program's own constructor and driven only
	// through what the program itself uses: onHandlerStart / onHandlerFinish
	// (called by connection handlers), the signal channel, and wait().
	m := newTermMonitor()
	defer signal.Stop(m.sigChan)
	abort := make(chan struct{})
	mainDone := make(chan struct{})
	var firstSig os.Signal
	var secondRet os.Signal
	c.Go(func() { close(mainDone) }, func() {
		// what main() does after set-up: wait for a signal; after a SIGINT close
		// the listeners (that takes a moment: the window) and wait for the
		// handlers to finish
		if firstSig = m.wait(false); firstSig == syscall.SIGTERM {
			return
		}
		if window > 0 {
			time.Sleep(window)
		}
		secondRet = m.wait(true)
	})
	var mu sync.Mutex
	consumed := make([][]byte, len(groups)) // per group: signals that were received by the monitor
	var wg sync.WaitGroup
	var sReturned, fCalled atomic.Int64
	send := func(gi int, ev byte) {
		defer wg.Done()
		switch ev {
		case 'S':
			m.onHandlerStart() // may block for as long as nobody is in wait()
			sReturned.Add(1)   // from here on the handler is relaying
		case 'F':
			// a handler finishes only if it got past its start
			for {
				cur := fCalled.Load()
				if sReturned.Load()-cur <= 0 {
					return
				}
				if fCalled.CompareAndSwap(cur, cur+1) {
					break
				}
			}
			m.onHandlerFinish()
		case 'I', 'T':
			var s os.Signal = syscall.SIGINT
			if ev == 'T' {
				s = syscall.SIGTERM
			}
			select {
			case m.sigChan <- s:
				mu.Lock()
				consumed[gi] = append(consumed[gi], ev)
				mu.Unlock()
			case <-abort:
			}
		}
	}
	isReturned := func() bool {
		select {
		case <-mainDone:
			return true
		default:
			return false
		}
	}
	// release group after group, each at its own virtual instant (1 ms apart),
	// let the system come to rest in between and note what is observable then
	type snapT struct {
		sRet, fCalled int64
		returned      bool
	}
	var snaps []snapT
	for gi, g := range groups {
		for i := 0; i < len(g); i++ {
			wg.Add(1)
			go send(gi, g[i])
		}
		synctest.Wait()
		snaps = append(snaps, snapT{sReturned.Load(), fCalled.Load(), isReturned()})
		time.Sleep(time.Millisecond)
	}
	time.Sleep(window + time.Millisecond)
	synctest.Wait()
	snaps = append(snaps, snapT{sReturned.Load(), fCalled.Load(), isReturned()})
	returned := snaps[len(snaps)-1].returned
	mu.Lock()
	var seqParts []string
	for _, cg := range consumed {
		seqParts = append(seqParts, string(cg))
	}
	mu.Unlock()
	seq := strings.Join(seqParts, ",")

	// ---- judgement, in the property's own terms.  A handler is active from
	// the moment its onHandlerStart() has returned until it calls
	// onHandlerFinish().  (1) wait() returns only for a reason: a SIGTERM, a
	// second SIGINT, or - after one SIGINT - no handler being active; (2) it
	// does not return by the last rule while handlers that were already active
	// at the previous quiescent point have not finished; (3) once the reason
	// exists and everything is at rest, it has returned.  Which of several
	// events of one instant the monitor sees first is the scheduler's choice;
	// nothing here depends on it.
	r.Count("evaluations", 1)
	r.Count("termmon_histories", 1)
	hist := strings.Join(groups, ",")
	if window > 0 {
		hist += fmt.Sprintf(" (window %v between the two waits)", window)
		r.Count("termmon_histories_with_window", 1)
	}
	wit := map[string]any{"history": hist, "signals_received": seq, "returned": returned}
	cls := tmClass(hist)
	nI, nT := strings.Count(seq, "I"), strings.Count(seq, "T")
	bySignal := nT > 0 || nI >= 2
	last := snaps[len(snaps)-1]
	active := last.sRet - last.fCalled
	switch {
	case returned && nI+nT == 0:
		c.Violation("termmon/returned-without-cause/"+cls, fmt.Sprintf("history %s: wait returned (first=%v second=%v) although no signal was received", hist, firstSig, secondRet), wit)
	case returned && !bySignal:
		// returned because no handler was active: check the handlers that were
		// active at the quiescent point before the one at which the return shows
		ri := 0
		for ri < len(snaps) && !snaps[ri].returned {
			ri++
		}
		var before int64
		if ri > 0 {
			before = snaps[ri-1].sRet
		}
		if before-snaps[ri].fCalled > 0 {
			c.Violation("termmon/shutdown-completed-with-active-handlers/"+cls, fmt.Sprintf("history %s (signals received %q): the graceful shutdown completed although %d handler(s) had got past onHandlerStart() before and only %d had finished", hist, seq, before, snaps[ri].fCalled), wit)
		} else if last.sRet == 0 {
			r.Count("termmon_shutdown_with_zero_handlers", 1)
		} else {
			r.Count("termmon_shutdown_after_last_finish", 1)
		}
	case returned:
		r.Count("termmon_sigterm_immediate", 1)
	case bySignal:
		c.Violation("termmon/shutdown-does-not-complete/signal-ignored", fmt.Sprintf("history %s (signals received %q): a SIGTERM or a second SIGINT was received but the main goroutine is still blocked in wait() at quiescence", hist, seq), wit)
	case nI == 1 && active == 0:
		why := "last handler finished after the shutdown request"
		if last.sRet == 0 {
			why = "shutdown requested while no handler was active"
		}
		c.Violation("termmon/shutdown-does-not-complete/"+slug(why), fmt.Sprintf("history %s (signals received %q): %s, but the main goroutine is still blocked in wait() at quiescence (%d handlers started, %d finished)", hist, seq, why, last.sRet, last.fCalled), wit)
	default:
		r.Count("termmon_still_waiting_as_expected", 1)
	}
	r.Distinct("nontrivial", "tm/"+hist)
	r.Distinct("termmon_consumed_orders", hist+"/"+seq)
	// clean up: pending signal senders give up; main, if still waiting, is
	// ended by a SIGTERM; handler calls that are still blocked (nobody is in
	// wait() any more) are drained by one more waiter, after main has gone.
	close(abort)
	if !returned {
		go func() {
			select {
			case m.sigChan <- syscall.SIGTERM:
			case <-mainDone:
			}
		}()
	}
	<-mainDone
	stop := make(chan struct{})
	drained := make(chan struct{})
	go func() {
		defer close(drained)
		for {
			m.wait(false)
			select {
			case <-stop:
				return
			default:
			}
		}
	}()
	wg.Wait()
	close(stop)
	m.sigChan <- syscall.SIGTERM
	<-drained
}

// tmRun feeds a sequence to the model and reports after how many events main
// must have returned (n = len(seq), mustReturn=false if never).
func tmRun(seq string) (n int, done bool, mustReturn bool, why string, active int) {
	sawInt := false
	for i := 0; i < len(seq); i++ {
		switch seq[i] {
		case 'S':
			active++
		case 'F':
			active--
			if sawInt && active == 0 {
				return i + 1, true, true, "last handler finished after the shutdown request", active
			}
		case 'T':
			return i + 1, true, true, "SIGTERM", active
		case 'I':
			if sawInt {
				return i + 1, true, true, "second SIGINT", active
			}
			sawInt = true
			if active == 0 {
				return i + 1, true, true, "shutdown requested while no handler was active", active
			}
		}
	}
	return len(seq), false, false, "", active
}

// tmExplain searches for an order of the events inside every group under which
// the model consumes exactly the observed events of every group and ends in
// the observed returned/not-returned state.
func tmExplain(groups []string, consumed []string, returned bool) (bool, []string) {
	var whys []string
	var rec func(gi int, prefix string) bool
	rec = func(gi int, prefix string) bool {
		if gi == len(groups) {
			_, done, _, why, _ := tmRun(prefix)
			if done && returned {
				whys = append(whys, why)
			}
			return done == returned
		}
		// main already returned: nothing of this group may have been consumed
		if _, done, _, why, _ := tmRun(prefix); done {
			for k := gi; k < len(groups); k++ {
				if len(consumed[k]) != 0 {
					return false
				}
			}
			if returned {
				whys = append(whys, why)
			}
			return returned
		}
		ok := false
		permute([]byte(groups[gi]), func(p []byte) {
			if ok {
				return
			}
			// the model consumes p in order until it returns
			n, done, _, _, _ := tmRun(prefix + string(p))
			used := n - len(prefix)
			if !done {
				used = len(p)
			}
			if !sameMultiset(signalsOf(p[:used]), []byte(consumed[gi])) {
				return
			}
			if rec(gi+1, prefix+string(p[:used])) {
				ok = true
			}
		})
		return ok
	}
	return rec(0, ""), whys
}

func signalsOf(p []byte) []byte {
	var o []byte
	for _, x := range p {
		if x == 'I' || x == 'T' {
			o = append(o, x)
		}
	}
	return o
}

func permute(a []byte, f func([]byte)) {
	var rec func(k int)
	rec = func(k int) {
		if k == len(a) {
			f(append([]byte(nil), a...))
			return
		}
		for i := k; i < len(a); i++ {
			a[k], a[i] = a[i], a[k]
			rec(k + 1)
			a[k], a[i] = a[i], a[k]
		}
	}
	rec(0)
}

func sameMultiset(a, b []byte) bool {
	if len(a) != len(b) {
		return false
	}
	var cnt [256]int
	for _, x := range a {
		cnt[x]++
	}
	for _, x := range b {
		cnt[x]--
	}
	for _, v := range cnt {
		if v != 0 {
			return false
		}
	}
	return true
}

func slug(s string) string { return strings.ReplaceAll(s, " ", "-") }

func tmClass(h string) string {
	if strings.ContainsAny(h, "IT") {
		return "with-signal"
	}
	return "no-signal"
}

// histories enumerates all event sequences of length n over S,F,I,T with
// finish <= start, and calls f with every grouping in which some adjacent
// events are merged into one instant (mask chosen by the caller).
func enumTM(n int, f func(seq string)) {
	var rec func(cur []byte, active int)
	rec = func(cur []byte, active int) {
		if len(cur) == n {
			f(string(cur))
			return
		}
		for _, ev := range []byte("SFIT") {
			if ev == 'F' && active == 0 {
				continue
			}
			a := active
			if ev == 'S' {
				a++
			} else if ev == 'F' {
				a--
			}
			rec(append(cur, ev), a)
		}
	}
	rec(nil, 0)
}

func group(seq string, mask int) []string {
	var g []string
	cur := ""
	for i := 0; i < len(seq); i++ {
		cur += string(seq[i])
		if i == len(seq)-1 || mask&(1<<i) == 0 {
			g = append(g, cur)
			cur = ""
		}
	}
	return g
}

// ---------------------------------------------------------------- connection handlers
//
// The program's own clientHandler / serverHandler are run against stub
// factories (the transport is not the subject here) so that every way a
// handler can end is driven: SOCKS handshake fails, arguments refused,
// outgoing connection fails, transport handshake fails at once or after a
// while, ORPort unreachable, or a relay that runs until one side ends.  The
// main goroutine does what main() does.  Judged: a graceful shutdown request
// completes once every handler that was started has finished - and not before.

type stubTransport struct{}

func (stubTransport) Name() string { return "stub" }
func (stubTransport) ClientFactory(string) (base.ClientFactory, error) {
	return nil, errors.New("unused")
}
func (stubTransport) ServerFactory(string, *pt.Args) (base.ServerFactory, error) {
	return nil, errors.New("unused")
}

type stubFactory struct {
	kind    string
	release chan struct{} // closed by the script to let a held step continue
	remote  *Conn         // far end of the "transport connection" of a relaying client handler
}

func (f *stubFactory) Transport() base.Transport { return stubTransport{} }
func (f *stubFactory) Args() *pt.Args            { return nil }
func (f *stubFactory) ParseArgs(*pt.Args) (interface{}, error) {
	if f.kind == "ca" {
		return nil, errors.New("stub: bad arguments")
	}
	return nil, nil
}
func (f *stubFactory) Dial(network, address string, dialFn base.DialFunc, args interface{}) (net.Conn, error) {
	switch f.kind {
	case "cd":
		return nil, &net.OpError{Op: "dial", Net: "tcp", Err: syscall.ECONNREFUSED}
	case "cl":
		<-f.release
		return nil, errors.New("stub: handshake failed late")
	}
	a, b := Pair(Options{})
	f.remote = b
	return a, nil
}
func (f *stubFactory) WrapConn(conn net.Conn) (net.Conn, error) {
	switch f.kind {
	case "sw":
		return nil, errors.New("stub: handshake failed")
	case "sd":
		time.Sleep(40 * time.Second)
		return nil, errors.New("stub: handshake failed after the delay")
	case "sl":
		<-f.release
		return nil, errors.New("stub: handshake failed late")
	}
	return conn, nil // "so": the handshake succeeds, the ORPort is unreachable
}

// handler kinds: first letter c(lient)/s(erver); the ones listed in liveKinds
// stay active until the script releases them.
var handlerKinds = []string{"cs", "ca", "cd", "cr", "cl", "sw", "sd", "so", "sl"}
var liveKinds = map[string]bool{"cr": true, "cl": true, "sl": true}

func runHandlers(c *Case, r *Run, kinds []string, sigDelay time.Duration) {
	m := newTermMonitor()
	defer signal.Stop(m.sigChan)
	termMon = m
	mainDone := make(chan struct{})
	c.Go(func() { close(mainDone) }, func() {
		if m.wait(false) == syscall.SIGTERM {
			return
		}
		m.wait(true)
	})
	var hwg sync.WaitGroup
	var finished int64
	var fmu sync.Mutex
	var factories []*stubFactory
	var apps []*Conn
	live := 0
	for _, k := range kinds {
		k := k
		f := &stubFactory{kind: k, release: make(chan struct{})}
		factories = append(factories, f)
		app, hc := Pair(Options{}) // app = the tor client / the remote peer; hc = the handler's end
		apps = append(apps, app)
		if liveKinds[k] {
			live++
		}
		hwg.Add(1)
		c.Go(func() {
			fmu.Lock()
			finished++
			fmu.Unlock()
			hwg.Done()
		}, func() {
			if k[0] == 'c' {
				clientHandler(f, hc, (*url.URL)(nil))
			} else {
				serverHandler(f, hc, &pt.ServerInfo{})
			}
		})
		if k[0] == 'c' {
			// the SOCKS client
			c.Go(nil, func() {
				if k == "cs" {
					app.Write([]byte("\x04not socks5"))
					app.Close()
					return
				}
				buf := make([]byte, 16)
				app.Write([]byte{5, 1, 0})
				if _, err := io.ReadFull(app, buf[:2]); err != nil {
					return
				}
				app.Write([]byte{5, 1, 0, 1, 127, 0, 0, 1, 0, 80})
				io.ReadFull(app, buf[:10])
			})
		}
		time.Sleep(time.Millisecond)
	}
	time.Sleep(sigDelay)
	sent := make(chan struct{})
	abort := make(chan struct{})
	go func() {
		select {
		case m.sigChan <- syscall.SIGINT:
			close(sent)
		case <-abort:
		}
	}()
	synctest.Wait()
	isDone := func(ch chan struct{}) bool {
		select {
		case <-ch:
			return true
		default:
			return false
		}
	}
	fmu.Lock()
	fin := finished
	fmu.Unlock()
	active := int64(len(kinds)) - fin
	hist := strings.Join(kinds, ",")
	wit := map[string]any{"handlers": hist, "sigint_after": sigDelay.String(), "finished_at_first_judgement": fin}
	r.Count("evaluations", 1)
	r.Count("handler_histories", 1)
	if !isDone(sent) {
		c.Violation("handlers/shutdown-request-not-received", fmt.Sprintf("handlers %s: the monitor never received the SIGINT", hist), wit)
	} else if active > 0 && isDone(mainDone) {
		c.Violation("handlers/shutdown-completed-with-active-handlers", fmt.Sprintf("handlers %s, SIGINT %v after the last start: wait returned although %d handler(s) had not finished", hist, sigDelay, active), wit)
	} else if active == 0 && !isDone(mainDone) {
		c.Violation("handlers/shutdown-does-not-complete", fmt.Sprintf("handlers %s, SIGINT %v after the last start: every handler has finished but the graceful shutdown has not completed", hist, sigDelay), wit)
	} else if active > 0 {
		r.Count("handlers_shutdown_waits_for_active_handlers", 1)
	}
	// let everything that is still active end: delayed handshakes run out,
	// held steps are released, relays see their peer go away
	time.Sleep(41 * time.Second)
	for i, f := range factories {
		close(f.release)
		if f.remote != nil {
			f.remote.Close()
		}
		_ = i
	}
	synctest.Wait()
	if isDone(sent) {
		if !isDone(mainDone) {
			fmu.Lock()
			fin = finished
			fmu.Unlock()
			c.Violation("handlers/shutdown-does-not-complete", fmt.Sprintf("handlers %s: all %d handlers were ended (%d have returned) but the graceful shutdown has not completed", hist, len(kinds), fin), wit)
		} else {
			r.Count("handlers_shutdown_completed_after_last_handler", 1)
		}
	}
	r.Distinct("nontrivial", fmt.Sprintf("handlers/%s/%v", hist, sigDelay))
	// clean up
	close(abort)
	if !isDone(mainDone) {
		go func() {
			select {
			case m.sigChan <- syscall.SIGTERM:
			case <-mainDone:
			}
		}()
	}
	<-mainDone
	stop := make(chan struct{})
	drained := make(chan struct{})
	go func() {
		defer close(drained)
		for {
			m.wait(false)
			select {
			case <-stop:
				return
			default:
			}
		}
	}()
	for _, a := range apps {
		a.Close()
	}
	hwg.Wait()
	close(stop)
	m.sigChan <- syscall.SIGTERM
	<-drained
}

// ---------------------------------------------------------------- driver

func TestCheck(t *testing.T) {
	r := Start(t, "C19")
	defer r.Finish()
	r.SpinWatch(BytesMoved)
	r.Note("rule", "relay: all scripts up to the bound over {Aw, Bw (data, sizes 1/700/70000), Aeof, Beof, Arst, Brst, Awerr, Bwerr} (a write fault is followed by traffic towards it), the error value with which a side fails rotating through 12 kinds (connection reset, io.ErrClosedPipe, net.ErrClosed bare and wrapped, deadline exceeded, context.Canceled, plain, ...) and every kind x 14 single-failure scripts, each with distinct or PRNG (possibly equal) virtual instants, unbounded or 4 KiB sink windows, chunkings {all,1,PRNG}; termination monitor: all histories up to the bound over {handler start, finish (only while one is active), SIGINT, SIGTERM}, each with all events at distinct instants and with adjacent events merged into the same instant (every mask in the thorough tier, PRNG masks in quick); the main goroutine does what main() does: wait(false), and after a SIGINT wait(true). several relays: 4 copyLoops alive at once in one bubble driven round-robin from one goroutine (mon.Interleave: tiny reads, own PRF stream per direction); connection handlers: the program's clientHandler/serverHandler against stub factories, every kind of ending (SOCKS failure, bad arguments, dial failure at once / late, relay until the peer goes, transport handshake failure at once / after 40 s / late, ORPort unreachable) alone, in every ordered pair and in PRNG histories of 3..6, SIGINT 0 s / 1 s / 50 s after the last start; judged: the shutdown completes once every started handler has finished and not before. Non-trivial = every script/history; distinct = (script, timing, window, chunking) / (history grouping).")

	// relay scripts
	maxLen := r.Pick(3, 4)
	evs := []relayEv{{"Aw", 1}, {"Aw", 70000}, {"Bw", 700}, {"Bw", 70000}, {"Aeof", 0}, {"Beof", 0}, {"Arst", 0}, {"Brst", 0}, {"Awerr", 0}, {"Bwerr", 0}}
	var scripts [][]relayEv
	var rec func(cur []relayEv)
	rec = func(cur []relayEv) {
		if len(cur) > 0 {
			s := append([]relayEv(nil), cur...)
			// a write fault only shows once the relay writes to that side
			last := s[len(s)-1]
			if last.kind == "Awerr" {
				s = append(s, relayEv{"Bw", 700})
			} else if last.kind == "Bwerr" {
				s = append(s, relayEv{"Aw", 700})
			}
			scripts = append(scripts, s)
		}
		if len(cur) == maxLen {
			return
		}
		ends := 0
		for _, e := range cur {
			if e.kind[1:] != "w" {
				ends++
			}
		}
		for _, e := range evs {
			if ends >= 2 && e.kind[1:] != "w" {
				continue
			}
			rec(append(cur, e))
		}
	}
	rec(nil)
	// scripts with a sink that stops reading while the other side keeps sending,
	// and then ends: the relay is blocked in Write towards the side whose read
	// side ends
	for _, xy := range [][2]string{{"A", "B"}, {"B", "A"}} {
		x, y := xy[0], xy[1]
		for _, end := range []string{"eof", "rst"} {
			scripts = append(scripts,
				[]relayEv{{x + "stall", 0}, {y + "w", 70000}, {x + end, 0}},
				[]relayEv{{y + "w", 700}, {x + "stall", 0}, {y + "w", 70000}, {y + "w", 70000}, {x + end, 0}},
				[]relayEv{{x + "w", 700}, {x + "stall", 0}, {y + "w", 70000}, {x + "w", 1}, {x + end, 0}})
			// (the other order — the sending side ends while the relay is blocked
			// writing to the stalled sink — is not judged: the copier that would see
			// that end is the one blocked in Write, so no relay built from blocking
			// copy loops can notice it before the sink reads again)
		}
	}
	r.Note("exhaustive_part", fmt.Sprintf("relay: all %d scripts of length <= %d (at most 2 end events) over 10 event kinds; termination monitor: all histories of length <= %d", len(scripts), maxLen, r.Pick(5, 6)))
	per := 40
	for blk := 0; blk*per < len(scripts); blk++ {
		blk := blk
		r.Case(fmt.Sprintf("relay/%04d", blk), func(c *Case) {
			for i := blk * per; i < len(scripts) && i < (blk+1)*per; i++ {
				variants := [][3]int{{0, 0, 0}, {1, 4096, i % 3}}
				if r.Thorough() {
					variants = append(variants, [3]int{0, 4096, 1}, [3]int{1, 0, 2})
				}
				for vi, v := range variants {
					i, v := i, v
					// the error value a failing side reports rotates through endErrors
					ek := 0
					if vi > 0 {
						ek = 1 + (i+vi)%(len(endErrors)-1)
					}
					func() {
						defer func() {
							if e := recover(); e != nil {
								sig := "relay/panic"
								if strings.HasPrefix(fmt.Sprint(e), "deadlock:") {
									sig = "relay/goroutines-still-blocked-after-teardown"
								}
								c.Violation(sig+"/"+classify(scripts[i]), fmt.Sprintf("%v; script %v", e, scripts[i]), nil)
							}
						}()
						synctest.Test(c.T, func(t *testing.T) {
							runRelay(c, r, scripts[i], v[0], v[1], v[2], r.Sub("relay", i, v[0], v[1], v[2]), ek)
						})
					}()
				}
			}
		})
	}

	// every error value x every way a single side can fail, with the other
	// side idle and healthy, sending, or itself ending afterwards
	var errScripts [][]relayEv
	for _, xy := range [][2]string{{"A", "B"}, {"B", "A"}} {
		x, y := xy[0], xy[1]
		errScripts = append(errScripts,
			[]relayEv{{x + "rst", 0}},
			[]relayEv{{x + "w", 700}, {x + "rst", 0}},
			[]relayEv{{y + "w", 70000}, {x + "rst", 0}},
			[]relayEv{{x + "w", 1}, {y + "w", 700}, {x + "rst", 0}, {y + "eof", 0}},
			[]relayEv{{x + "werr", 0}, {y + "w", 700}},
			[]relayEv{{x + "w", 700}, {x + "werr", 0}, {y + "w", 70000}},
			[]relayEv{{x + "stall", 0}, {y + "w", 70000}, {x + "rst", 0}},
			// the side has torn itself down before the relay notices
			[]relayEv{{x + "selfclose", 0}},
			[]relayEv{{x + "w", 700}, {y + "w", 700}, {x + "selfclose", 0}},
			[]relayEv{{y + "w", 70000}, {x + "selfclose", 0}, {y + "w", 700}},
			[]relayEv{{x + "stall", 0}, {y + "w", 70000}, {x + "selfclose", 0}},
			// both copy directions fail on their own
			[]relayEv{{x + "rstw", 0}},
			[]relayEv{{y + "w", 700}, {x + "rstw", 0}},
			[]relayEv{{x + "stall", 0}, {y + "w", 70000}, {x + "rstw", 0}},
			[]relayEv{{x + "w", 700}, {x + "stall", 0}, {y + "w", 70000}, {y + "w", 70000}, {x + "rstw", 0}},
			[]relayEv{{x + "both", 0}},
			[]relayEv{{x + "w", 700}, {y + "w", 1}, {x + "both", 0}},
			[]relayEv{{x + "stall", 0}, {y + "w", 70000}, {x + "both", 0}})
	}
	r.Case("relay-end-errors", func(c *Case) {
		for ek := range endErrors {
			for si, sc := range errScripts {
				for vi, v := range [][3]int{{0, 0, 0}, {1, 4096, 2}} {
					ek, si, sc, v := ek, si, sc, v
					func() {
						defer func() {
							if e := recover(); e != nil {
								sig := "relay/panic"
								if strings.HasPrefix(fmt.Sprint(e), "deadlock:") {
									sig = "relay/goroutines-still-blocked-after-teardown"
								}
								c.Violation(sig+"/"+classify(sc), fmt.Sprintf("%v; script %v; end error %s", e, sc, endErrors[ek].name), nil)
							}
						}()
						synctest.Test(c.T, func(t *testing.T) { runRelay(c, r, sc, v[0], v[1], v[2], r.Sub("relay-err", ek, si, vi), ek) })
					}()
				}
			}
		}
	})

	// termination monitor histories
	// (os/signal starts its dispatch goroutine on first use; that must not
	// happen inside a bubble)
	signal.Notify(make(chan os.Signal, 1), syscall.SIGUSR2)
	maxH := r.Pick(5, 6)
	var hs []string
	for n := 1; n <= maxH; n++ {
		enumTM(n, func(s string) { hs = append(hs, s) })
	}
	per = 60
	for blk := 0; blk*per < len(hs); blk++ {
		blk := blk
		r.Case(fmt.Sprintf("termmon/%04d", blk), func(c *Case) {
			rng := NewRand(r.Sub("tm", blk))
			for i := blk * per; i < len(hs) && i < (blk+1)*per; i++ {
				h := hs[i]
				masks := []int{0}
				if len(h) > 1 {
					if r.Thorough() {
						for m := 1; m < 1<<(len(h)-1); m++ {
							masks = append(masks, m)
						}
					} else {
						masks = append(masks, 1+rng.IntN(1<<(len(h)-1)-1), 1<<(len(h)-1)-1)
					}
				}
				for _, mk := range masks {
					g := group(h, mk)
					causal := true
					for _, grp := range g {
						if i := strings.IndexByte(grp, 'S'); i >= 0 && strings.IndexByte(grp[i:], 'F') >= 0 {
							causal = false // a handler's finish cannot be simultaneous with its own start
						}
					}
					if !causal {
						continue
					}
					func() {
						defer func() {
							if e := recover(); e != nil {
								c.Violation("termmon/panic-or-wedge", fmt.Sprintf("%v; history %v", e, g), nil)
							}
						}()
						for _, win := range []time.Duration{0, 2 * time.Millisecond} {
							synctest.Test(c.T, func(t *testing.T) { runTermMon(c, r, g, win) })
						}
					}()
				}
			}
		})
	}

	// several relays alive at once in one process, used in an interleaved way
	// (whatever a relay keeps between calls - copy buffers - must be its own)
	for g := 0; g < r.Pick(15, 180); g++ {
		g := g
		r.Case(fmt.Sprintf("relays-interleaved/%03d", g), func(c *Case) {
			func() {
				defer func() {
					if e := recover(); e != nil {
						c.Violation("relay/panic-or-wedge/several-relays", fmt.Sprintf("%v", e), nil)
					}
				}()
				synctest.Test(c.T, func(t *testing.T) {
					var links []Link
					var ends []*Conn
					var done []chan struct{}
					for k := 0; k < 4; k++ {
						a1, a2 := Pair(Options{})
						b1, b2 := Pair(Options{})
						ends = append(ends, a2, b2)
						d := make(chan struct{})
						done = append(done, d)
						c.Go(func() { close(d) }, func() { copyLoop(a1, b1) })
						links = append(links, Link{Name: fmt.Sprintf("relay%d", k), A: a2, B: b2})
					}
					if g%3 == 2 {
						// the same relays on all processors at once instead
						wait := Parallel(c, r, "relay/several-relays-in-parallel", links, []int{40000, 300000}[g/3%2], []int{6000, 70000}[g/6%2], r.Sub("relays", g))
						for _, e := range ends {
							e.Close()
						}
						wait()
					} else {
						Interleave(c, r, "relay/several-relays", links, r.Sub("relays", g))
						for _, e := range ends {
							e.Close()
						}
					}
					for _, d := range done {
						<-d
					}
				})
			}()
		})
	}

	// connection handlers: every single kind, every ordered pair, and PRNG
	// histories of 3..6 handlers, with the SIGINT at three distances from the
	// last start
	var hhist [][]string
	for _, a := range handlerKinds {
		hhist = append(hhist, []string{a})
		for _, b := range handlerKinds {
			hhist = append(hhist, []string{a, b})
		}
	}
	hrng := NewRand(r.Sub("handlers"))
	for i := 0; i < r.Pick(60, 1500); i++ {
		var h []string
		for k := 0; k < 3+hrng.IntN(4); k++ {
			h = append(h, handlerKinds[hrng.IntN(len(handlerKinds))])
		}
		hhist = append(hhist, h)
	}
	per = 15
	for blk := 0; blk*per < len(hhist); blk++ {
		blk := blk
		r.Case(fmt.Sprintf("handlers/%04d", blk), func(c *Case) {
			for i := blk * per; i < len(hhist) && i < (blk+1)*per; i++ {
				for _, d := range []time.Duration{0, time.Second, 50 * time.Second} {
					h, d := hhist[i], d
					func() {
						defer func() {
							if e := recover(); e != nil {
								c.Violation("handlers/panic-or-wedge", fmt.Sprintf("%v; handlers %v", e, h), nil)
							}
						}()
						synctest.Test(c.T, func(t *testing.T) { runHandlers(c, r, h, d) })
					}()
				}
			}
		})
	}

	// the same instant, many times: histories in which the last handler
	// finishes at the very instant the shutdown request arrives are repeated
	// so that the scheduler's choices inside that instant (finish before /
	// between / after the monitor's own check-then-block steps) get sampled
	hot := [][]string{{"S", "IF"}, {"SS", "F", "IF"}, {"S", "S", "IFF"}, {"SS", "IF", "F"}, {"S", "FI"}, {"S", "I", "SF", "F"}}
	reps := r.Pick(1500, 20000)
	for k := 0; k < 8; k++ {
		k := k
		r.Case(fmt.Sprintf("termmon-repeat/%d", k), func(c *Case) {
			for i := 0; i < reps; i++ {
				g := hot[(i+k)%len(hot)]
				stop := false
				func() {
					defer func() {
						if e := recover(); e != nil {
							c.Violation("termmon/panic-or-wedge", fmt.Sprintf("%v; history %v", e, g), nil)
							stop = true
						}
					}()
					for _, win := range []time.Duration{0, 2 * time.Millisecond} {
						synctest.Test(c.T, func(t *testing.T) { runTermMon(c, r, g, win) })
					}
				}()
				r.Count("termmon_repeated_same_instant_histories", 1)
				if stop {
					break
				}
			}
		})
	}
}
