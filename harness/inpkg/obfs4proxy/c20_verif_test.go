//go:build verif

// C20, call sites — what the proxy itself writes to its log.  The program's
// own clientHandler / serverHandler are run against stub factories (shared
// with the C19 monitor) with logging enabled at DEBUG level and the standard
// logger's output captured.  Every address that takes part — the peer's
// address on the accepted connection, the SOCKS target (IPv4, IPv6, host
// name), the addresses inside the errors the transport and the dialer return,
// the ORPort — is a distinctive token; with scrubbing enabled none of them
// may appear in the log text, with unsafe logging enabled they do (control:
// the capture sees what is logged).
package main

import (
	"bytes"
	"fmt"
	"io"
	golog "log"
	"net"
	"net/url"
	"os"
	"os/signal"
	"strings"
	"sync"
	"syscall"
	"testing"
	"testing/synctest"
	"time"

	pt "gitlab.torproject.org/tpo/anti-censorship/pluggable-transports/goptlib"

	"gitlab.com/yawning/obfs4.git/common/log"
	"gitlab.com/yawning/obfs4.git/transports/base"
)

type logBuf struct {
	mu sync.Mutex
	b  bytes.Buffer
}

func (l *logBuf) Write(p []byte) (int, error) { l.mu.Lock(); defer l.mu.Unlock(); return l.b.Write(p) }
func (l *logBuf) String() string              { l.mu.Lock(); defer l.mu.Unlock(); return l.b.String() }

// addrFactory fails (or succeeds) like stubFactory but puts addresses into its errors.
type addrFactory struct {
	kind   string
	errFn  func() error
	remote *Conn
}

func (f *addrFactory) Transport() base.Transport               { return stubTransport{} }
func (f *addrFactory) Args() *pt.Args                          { return nil }
func (f *addrFactory) ParseArgs(*pt.Args) (interface{}, error) { return nil, nil }
func (f *addrFactory) WrapConn(c net.Conn) (net.Conn, error) {
	if f.kind == "server-handshake-fails" {
		return nil, f.errFn()
	}
	return c, nil
}
func (f *addrFactory) Dial(network, address string, dialFn base.DialFunc, args interface{}) (net.Conn, error) {
	if f.kind == "client-dial-fails" {
		return nil, f.errFn()
	}
	a, b := Pair(Options{})
	f.remote = b
	return a, nil
}

func socksRequest(host string, port int) []byte {
	req := []byte{5, 1, 0}
	if ip := net.ParseIP(host); ip != nil {
		if v4 := ip.To4(); v4 != nil {
			req = append(append(req, 1), v4...)
		} else {
			req = append(append(req, 4), ip.To16()...)
		}
	} else {
		req = append(append(req, 3, byte(len(host))), host...)
	}
	return append(req, byte(port>>8), byte(port))
}

// runLogged runs one handler to its end and returns what was logged.
func runLogged(c *Case, kind string, peer net.Addr, target string, tport int, errFn func() error, orAddr *net.TCPAddr) string {
	var buf logBuf
	golog.SetOutput(&buf)
	defer golog.SetOutput(io.Discard)
	m := newTermMonitor()
	termMon = m
	mainDone := make(chan struct{})
	c.Go(func() { close(mainDone) }, func() {
		for m.wait(false) != syscall.SIGTERM {
		}
	})
	f := &addrFactory{kind: kind, errFn: errFn}
	app, hc := Pair(Options{})
	hc.SetAddrs(&net.TCPAddr{IP: net.IPv4(192, 0, 2, 2), Port: 443}, peer)
	done := make(chan struct{})
	c.Go(func() { close(done) }, func() {
		if strings.HasPrefix(kind, "client") {
			clientHandler(f, hc, (*url.URL)(nil))
		} else {
			serverHandler(f, hc, &pt.ServerInfo{OrAddr: orAddr})
		}
	})
	if strings.HasPrefix(kind, "client") {
		c.Go(nil, func() {
			b := make([]byte, 16)
			app.Write([]byte{5, 1, 0})
			if _, err := io.ReadFull(app, b[:2]); err != nil {
				return
			}
			app.Write(socksRequest(target, tport))
			io.ReadFull(app, b[:10])
		})
	}
	synctest.Wait()
	time.Sleep(time.Second)
	// a relaying handler ends when its peer goes away
	if f.remote != nil {
		f.remote.Close()
	}
	app.Close()
	<-done
	m.sigChan <- syscall.SIGTERM
	<-mainDone
	return buf.String()
}

func TestCheckC20(t *testing.T) {
	r := Start(t, "C20")
	defer r.Finish()
	r.Note("call_sites", "the proxy's own clientHandler/serverHandler (package main, compiled in with go test -overlay) run against stub factories with logging on at DEBUG and the logger's output captured: peer address of the accepted connection, SOCKS target (IPv4 / IPv6 / host name), addresses inside the errors the transport and the dialer return (OpError with Addr and Source, DNSError with name and server, AddrError, errors from a refused ORPort connection) are distinctive tokens; with scrubbing enabled none may appear in the log, with unsafe logging they do (control)")
	// (os/signal starts its dispatch goroutine on first use; that must not
	// happen inside a bubble)
	signal.Notify(make(chan os.Signal, 1), syscall.SIGUSR2)
	n := r.Pick(96, 1600)
	for blk := 0; blk < 8; blk++ {
		blk := blk
		r.Case(fmt.Sprintf("call-sites/%d", blk), func(c *Case) {
			rng := NewRand(r.Sub("callsites", blk))
			for i := 0; i < n/8; i++ {
				v4 := fmt.Sprintf("203.0.113.%d", 1+rng.IntN(250))
				v4b := fmt.Sprintf("198.51.100.%d", 1+rng.IntN(250))
				v6 := fmt.Sprintf("2001:db8:%x::%x", 1+rng.IntN(0xfffe), 1+rng.IntN(0xfffe))
				host := fmt.Sprintf("h%06x.secret.example", rng.IntN(1<<24))
				dns := fmt.Sprintf("ns%04x.resolver.example", rng.IntN(1<<16))
				var peer net.Addr = &net.TCPAddr{IP: net.ParseIP(v4), Port: 40000 + rng.IntN(20000)}
				if i%3 == 1 {
					peer = &net.TCPAddr{IP: net.ParseIP(v6), Port: 40000 + rng.IntN(20000)}
				}
				target := []string{v4b, v6, host}[i%3]
				errs := []func() error{
					func() error {
						return &net.OpError{Op: "dial", Net: "tcp", Source: &net.TCPAddr{IP: net.ParseIP(v4b), Port: 50123}, Addr: &net.TCPAddr{IP: net.ParseIP(v4), Port: 443}, Err: syscall.ECONNREFUSED}
					},
					func() error {
						return &net.OpError{Op: "dial", Net: "tcp", Err: &net.DNSError{Err: "no such host", Name: host, Server: dns + ":53", IsNotFound: true}}
					},
					func() error { return &net.AddrError{Err: "missing port in address", Addr: host} },
					func() error {
						return fmt.Errorf("transport: %w", &net.OpError{Op: "read", Net: "tcp", Addr: &net.TCPAddr{IP: net.ParseIP(v6), Port: 443}, Err: syscall.ECONNRESET})
					},
					func() error {
						return &net.OpError{Op: "dial", Net: "tcp", Err: &net.DNSError{Err: "read udp " + v4b + ":4242->" + v4 + ":53: i/o timeout", Name: host, Server: v4 + ":53", IsTimeout: true}}
					},
				}
				tokens := []string{v4, v4b, v6, host, dns, "127.0.0.1"} // (the last one is the ORPort)
				kinds := []string{"client-dial-fails", "client-relays", "server-handshake-fails", "server-orport-refused"}
				kind := kinds[(i+blk)%len(kinds)]
				errFn := errs[(i/len(kinds)+blk)%len(errs)]
				for _, unsafe := range []bool{false, true} {
					if unsafe && i%8 != 0 {
						continue
					}
					var text string
					func() {
						defer func() {
							if e := recover(); e != nil {
								c.Violation("call-site/panic-or-wedge", fmt.Sprintf("%v (%s)", e, kind), nil)
							}
						}()
						synctest.Test(c.T, func(t *testing.T) {
							log.Init(true, "/dev/null", unsafe)
							log.SetLogLevel("DEBUG")
							text = runLogged(c, kind, peer, target, 443, errFn, &net.TCPAddr{IP: net.IPv4(127, 0, 0, 1), Port: 1})
							log.Init(false, "", false)
						})
					}()
					r.Count("evaluations", 1)
					r.Count("call_site_runs_"+kind, 1)
					r.Count("call_site_log_lines", int64(strings.Count(text, "\n")))
					seen := 0
					for _, tk := range tokens {
						if strings.Contains(text, tk) {
							seen++
							if !unsafe {
								c.Violation("leak/call-site/"+kind, fmt.Sprintf("the proxy's log contains %q with address scrubbing enabled: %s", tk, strings.TrimSpace(text)), map[string]any{"kind": kind, "token": tk, "log": text})
							}
						}
					}
					if unsafe && seen > 0 {
						r.Count("controls_call_site_address_visible_with_unsafe_logging", 1)
					}
					if !unsafe && strings.Count(text, "\n") > 0 {
						r.Count("call_site_logs_scrubbed", 1)
					}
					r.Distinct("nontrivial", fmt.Sprintf("call-site/%s/%d/%d/%v", kind, blk, i, unsafe))
				}
			}
		})
	}
}
