//go:build !verif

package main

import (
	"fmt"
	"os"
)

// Without the verif tag (a plain `go build ./...`) the helper has nothing to
// call: C18 builds it with the tags of its check.
func main() {
	fmt.Fprintln(os.Stderr, "statehelper: built without the verif build tag")
	os.Exit(2)
}
