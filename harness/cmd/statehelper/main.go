//go:build verif

// statehelper performs ONE state-directory operation of the code under test
// and prints one JSON line describing the outcome.  It is run under strace by
// the C18 check (record / kill injection) and plainly on every crash state.
//
//	statehelper obfs4-start <dir> [key=value ...]   one ServerFactory() start
//	statehelper ss-factory  <dir>                   ScrambleSuit ClientFactory() (loads the ticket store)
//	statehelper ss-store    <dir> <host:port> <hex>  store a ticket
//	statehelper ss-get      <dir> <host:port>        take a ticket
package main

import (
	"encoding/hex"
	"encoding/json"
	"fmt"
	"net"
	"os"
	"runtime"
	"strings"

	pt "gitlab.torproject.org/tpo/anti-censorship/pluggable-transports/goptlib"

	"gitlab.com/yawning/obfs4.git/transports"
)

func init() {
	// all file-system calls come from the main thread, so that strace's
	// per-thread `when=` counting addresses them
	runtime.LockOSThread()
}

type out struct {
	OK    bool   `json:"ok"`
	Err   string `json:"err,omitempty"`
	Cert  string `json:"cert,omitempty"`
	IAT   string `json:"iat,omitempty"`
	Found bool   `json:"found,omitempty"`
}

func emit(o out) {
	b, _ := json.Marshal(o)
	fmt.Println(string(b))
}

func main() {
	if len(os.Args) < 3 {
		fmt.Fprintln(os.Stderr, "usage")
		os.Exit(2)
	}
	if err := transports.Init(); err != nil {
		emit(out{Err: err.Error()})
		return
	}
	dir := os.Args[2]
	switch os.Args[1] {
	case "obfs4-start":
		args := pt.Args{}
		for _, kv := range os.Args[3:] {
			k, v, _ := strings.Cut(kv, "=")
			args.Add(k, v)
		}
		sf, err := transports.Get("obfs4").ServerFactory(dir, &args)
		if err != nil {
			emit(out{Err: err.Error()})
			return
		}
		cert, _ := sf.Args().Get("cert")
		iat, _ := sf.Args().Get("iat-mode")
		emit(out{OK: true, Cert: cert, IAT: iat})
	case "ss-factory":
		_, err := transports.Get("scramblesuit").ClientFactory(dir)
		if err != nil {
			emit(out{Err: err.Error()})
			return
		}
		emit(out{OK: true})
	case "ss-store":
		addr, err := net.ResolveTCPAddr("tcp", os.Args[3])
		if err != nil {
			emit(out{Err: err.Error()})
			return
		}
		raw, _ := hex.DecodeString(os.Args[4])
		if err := ssStoreTicket(dir, addr, raw); err != nil {
			emit(out{Err: err.Error()})
			return
		}
		emit(out{OK: true})
	case "ss-get":
		addr, err := net.ResolveTCPAddr("tcp", os.Args[3])
		if err != nil {
			emit(out{Err: err.Error()})
			return
		}
		found, err := ssGetTicket(dir, addr)
		if err != nil {
			emit(out{Err: err.Error()})
			return
		}
		emit(out{OK: true, Found: found})
	}
}
