//go:build verif

// statehelper performs ONE state-directory operation of the code under test
// and prints one JSON line describing the outcome.  It is run under strace by
// the C18 check (record / kill injection) and plainly on every crash state.
//
//	statehelper obfs4-start <dir> [key=value ...]   one ServerFactory() start
//	statehelper ss-factory  <dir>                   ScrambleSuit ClientFactory() (loads the ticket store)
//	statehelper ss-store    <dir> <host:port> <hex>  store a ticket
//	statehelper ss-get      <dir> <host:port>        take a ticket
package main

import (
	"encoding/base64"
	"encoding/hex"
	"encoding/json"
	"fmt"
	"io"
	"math/rand/v2"
	"net"
	"os"
	"runtime"
	"strings"
	"time"

	pt "gitlab.torproject.org/tpo/anti-censorship/pluggable-transports/goptlib"

	"gitlab.com/yawning/obfs4.git/transports"
	"gitlab.com/yawning/obfs4.git/transports/base"

	"verif/o4"
	ref "verif/ref/obfs4"
)

func init() {
	// all file-system calls come from the main thread, so that strace's
	// per-thread `when=` counting addresses them
	runtime.LockOSThread()
}

type out struct {
	OK    bool   `json:"ok"`
	Err   string `json:"err,omitempty"`
	Cert  string `json:"cert,omitempty"`
	IAT   string `json:"iat,omitempty"`
	Seed  string `json:"seed,omitempty"` // the drbg-seed a client is sent behind the server's handshake response
	Found bool   `json:"found,omitempty"`
}

// seedSentToClients connects a reference client to the factory over an
// in-memory pipe and returns (hex) the seed carried by the PRNG-seed packet
// the server sends behind its response: the part of the bridge's identity
// that Args() does not show.  No file-system call is involved.
func seedSentToClients(sf base.ServerFactory, cert string) string {
	raw, err := base64.RawStdEncoding.DecodeString(strings.TrimRight(cert, "="))
	if err != nil || len(raw) != 52 {
		return ""
	}
	var br ref.Bridge
	copy(br.NodeID[:], raw[:20])
	copy(br.Pub[:], raw[20:])
	cl, sv := net.Pipe()
	defer cl.Close()
	go func() {
		if c, err := sf.WrapConn(sv); err == nil {
			io.Copy(io.Discard, c)
		}
		sv.Close()
	}()
	cl.SetDeadline(time.Now().Add(20 * time.Second))
	rc, _, _, err := o4.RefDial(cl, br, rand.New(rand.NewPCG(uint64(time.Now().UnixNano()), 18)), -1, o4.Hours(0))
	if err != nil {
		return ""
	}
	for i := 0; i < 4; i++ {
		pk, err := rc.ReadPackets()
		for _, q := range pk {
			if q.Type == ref.PacketPrngSeed {
				return hex.EncodeToString(q.Data)
			}
		}
		if err != nil {
			break
		}
	}
	return ""
}

func emit(o out) {
	b, _ := json.Marshal(o)
	fmt.Println(string(b))
}

func main() {
	if len(os.Args) < 3 {
		fmt.Fprintln(os.Stderr, "usage")
		os.Exit(2)
	}
	// (the transports are registered by the init function of verif/o4)
	dir := os.Args[2]
	switch os.Args[1] {
	case "obfs4-start":
		args := pt.Args{}
		for _, kv := range os.Args[3:] {
			k, v, _ := strings.Cut(kv, "=")
			args.Add(k, v)
		}
		sf, err := transports.Get("obfs4").ServerFactory(dir, &args)
		if err != nil {
			emit(out{Err: err.Error()})
			return
		}
		cert, _ := sf.Args().Get("cert")
		iat, _ := sf.Args().Get("iat-mode")
		emit(out{OK: true, Cert: cert, IAT: iat, Seed: seedSentToClients(sf, cert)})
	case "ss-factory":
		_, err := transports.Get("scramblesuit").ClientFactory(dir)
		if err != nil {
			emit(out{Err: err.Error()})
			return
		}
		emit(out{OK: true})
	case "ss-store":
		addr, err := net.ResolveTCPAddr("tcp", os.Args[3])
		if err != nil {
			emit(out{Err: err.Error()})
			return
		}
		raw, _ := hex.DecodeString(os.Args[4])
		if err := ssStoreTicket(dir, addr, raw); err != nil {
			emit(out{Err: err.Error()})
			return
		}
		emit(out{OK: true})
	case "ss-get":
		addr, err := net.ResolveTCPAddr("tcp", os.Args[3])
		if err != nil {
			emit(out{Err: err.Error()})
			return
		}
		found, err := ssGetTicket(dir, addr)
		if err != nil {
			emit(out{Err: err.Error()})
			return
		}
		emit(out{OK: true, Found: found})
	}
}
