//go:build !verif_tickets

package main

import (
	"errors"
	"net"
)

var errNoTicketHook = errors.New("verif: built without the ticket-store hook")

func ssStoreTicket(dir string, addr net.Addr, raw []byte) error { return errNoTicketHook }

func ssGetTicket(dir string, addr net.Addr) (bool, error) { return false, errNoTicketHook }
