//go:build verif_tickets

package main

import (
	"net"

	"gitlab.com/yawning/obfs4.git/transports/scramblesuit"
)

func ssStoreTicket(dir string, addr net.Addr, raw []byte) error {
	return scramblesuit.VerifStoreTicket(dir, addr, raw)
}

func ssGetTicket(dir string, addr net.Addr) (bool, error) { return scramblesuit.VerifGetTicket(dir, addr) }
