"""Per-check configuration for bin/check."""

CHECKS = {
    "C20": {
        "race": False,
        "shards": {"quick": 4, "thorough": 16},
        "level": "exploration",
        "require_counters": ["trees_with_secrets", "controls_secret_visible_in_original", "real_errors", "addr_strings"],
        "assumptions": [
            "secret tokens are placed only in the address-bearing fields of the standard error types (and, for errors produced by the standard library itself, wherever net put them)",
            "ports and operation/cause words may remain, as the property allows",
        ],
    },
}
