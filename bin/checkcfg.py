"""Per-check configuration for bin/check."""

CHECKS = {
    "C20": {
        "race": False,
        "shards": {"quick": 4, "thorough": 16},
        "level": "exploration",
        "technique": "runtime monitor: substring oracle on ElideError/ElideAddr output over generated error trees and errors produced by the standard library",
        "level_text": "Exploration: every chain of <=3 (quick) / <=4 (thorough) wrappers of 20 kinds around 25 leaf kinds is enumerated completely, deeper chains and address strings are sampled by PRNG, and errors built by the real net package (dial syntax errors, refused connects, Go resolver over a scripted failing transport) are included; the oracle is exact (secret tokens are unique strings). Right level: the function is pure, so the only uncertainty is which inputs were tried.",
        "level_note": "Trusts that distinctive tokens cannot appear in the output by accident; error types outside the standard library are not generated.",
        "require_counters": ["trees_with_secrets", "controls_secret_visible_in_original", "real_errors", "addr_strings"],
        "assumptions": [
            "secret tokens are placed only in the address-bearing fields of the standard error types (and, for errors produced by the standard library itself, wherever net put them)",
            "ports and operation/cause words may remain, as the property allows",
        ],
    },
}

# /repo commits that add tag-guarded hook files (MANIFEST.hooks.source_commits)
HOOK_COMMITS = []

# properties this technique family cannot decide (none so far)
NOT_APPLICABLE = {}
