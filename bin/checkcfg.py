"""Per-check configuration for bin/check: every harness/checks/<id>/check.json."""
import glob, json, os

_here = os.path.dirname(os.path.dirname(os.path.abspath(__file__)))
CHECKS = {}
for _f in sorted(glob.glob(os.path.join(_here, "harness", "checks", "*", "check.json"))):
    _id = os.path.basename(os.path.dirname(_f)).upper()
    CHECKS[_id] = json.load(open(_f))

# /repo commits that add tag-guarded hook files (MANIFEST.hooks.source_commits)
HOOK_COMMITS = ["e85958d"]

# properties this technique family cannot decide (none so far)
NOT_APPLICABLE = {}
