"""Per-check configuration for bin/check: every harness/checks/<id>/check.json."""
import glob, json, os

_here = os.path.dirname(os.path.dirname(os.path.abspath(__file__)))
CHECKS = {}
for _f in sorted(glob.glob(os.path.join(_here, "harness", "checks", "*", "check.json"))):
    _id = os.path.basename(os.path.dirname(_f)).upper()
    CHECKS[_id] = json.load(open(_f))

# checks that are finished and claimed in MANIFEST.json (others may exist as work in progress)
REGISTERED = ["C01", "C02", "C03", "C04", "C05", "C06", "C07", "C08", "C09", "C10", "C11", "C12", "C13", "C14", "C15", "C16", "C17", "C18", "C19", "C20"]

# /repo commits that add tag-guarded hook files (MANIFEST.hooks.source_commits)
HOOK_COMMITS = ["e85958d", "25b489f", "e2eef89"]

# properties this technique family cannot decide (none so far)
NOT_APPLICABLE = {}
